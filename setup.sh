#!/bin/sh
# Offline environment verification; nothing is fetched or built (pure Python, no third-party verification libs).
here="$(cd "$(dirname "$0")" && pwd)"
cd "$here" || exit 1
PYTHONPATH="${VF_REPO:-/repo}:$here" /venv/bin/python - <<'PY'
import json, os, shutil, sqlite3, subprocess, sys
import libcst, mypy_extensions, monkeytype
caps = {"python": sys.version.split()[0], "sqlite": sqlite3.sqlite_version, "monkeytype": monkeytype.__file__,
        "strace": shutil.which("strace")}
ok = False
if caps["strace"]:
    try:
        p = subprocess.run(["strace", "-f", "-o", "/dev/null", "-e", "trace=none", "/bin/true"], capture_output=True, timeout=30)
        ok = p.returncode == 0
    except Exception:
        ok = False
caps["ptrace_ok"] = ok
json.dump(caps, open(".caps.json", "w"), indent=1)
print("setup ok", caps)
PY
