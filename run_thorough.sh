#!/bin/sh
# convenience: all thorough tiers in sequence (used with `vp run`); evidence/replays go to the snapshot's own dirs
for p in "$@"; do
  echo "=== $p"; ./check "$p" --tier thorough 2>&1 | grep -v "^WARNING conda" | cut -c1-400 | tail -25
done
