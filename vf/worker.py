"""Worker entry: python -m vf.worker module:function in.json out.jsonl"""
import importlib
import json
import os
import sys
import traceback


def classify_exception(exc):
    """An exception escaping from monkeytype code is an observation about the repository; anything
    else is a harness error."""
    repo = os.path.realpath(os.environ.get("VF_REPO", "/repo"))
    tb = traceback.extract_tb(exc.__traceback__)
    inner = None
    for fr in tb:
        if os.path.realpath(fr.filename).startswith(os.path.join(repo, "monkeytype")):
            inner = fr
    text = "".join(traceback.format_exception(type(exc), exc, exc.__traceback__))
    if inner is not None:
        return {"mt_exception": {"type": type(exc).__name__, "where": f"{os.path.basename(inner.filename)}:{inner.name}", "text": text}}
    return {"harness_error": text}


def main():
    modfunc, inp, outp = sys.argv[1:4]
    mod, fn = modfunc.split(":")
    from vf import core

    core.assert_repo()
    f = getattr(importlib.import_module(mod), fn)
    items = json.load(open(inp))
    with open(outp, "w") as out:
        for i, payload in items:
            try:
                r = f(payload)
            except BaseException as e:  # noqa
                if isinstance(e, (KeyboardInterrupt, SystemExit)):
                    raise
                r = classify_exception(e)
                r["payload"] = payload if len(json.dumps(payload, default=repr)) < 4000 else "payload too large"
            out.write(json.dumps([i, r], default=repr) + "\n")
            out.flush()
    core.cleanup()


if __name__ == "__main__":
    main()
