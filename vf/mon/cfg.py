"""Shipped-configuration variants addressable from the CLI:  -c vf.mon.cfg:K<k>_<Rewriter>
(module-level __getattr__ builds the Config on demand).  Only type_rewriter / max_typed_dict_size vary;
everything else is DefaultConfig (SQLite store at MT_DB_PATH, default code filter)."""

REWRITERS = ["NoOpRewriter", "RemoveEmptyContainers", "RewriteConfigDict", "RewriteLargeUnion", "RewriteGenerator",
             "RewriteMostSpecificCommonBase", "DEFAULT"]


def make(k, rewriter):
    import monkeytype.typing as mt
    from monkeytype.config import DefaultConfig

    class C(DefaultConfig):
        def max_typed_dict_size(self):
            return k

        def type_rewriter(self):
            if rewriter == "DEFAULT":
                return mt.DEFAULT_REWRITER
            return getattr(mt, rewriter)()

    return C()


def __getattr__(name):
    if name.startswith("K") and "_" in name:
        k, rw = name[1:].split("_", 1)
        return make(int(k), rw)
    raise AttributeError(name)
