"""Shipped-configuration variants addressable from the CLI:  -c vf.mon.cfg:K<k>_<Rewriter>
(module-level __getattr__ builds the Config on demand).  Only type_rewriter / max_typed_dict_size vary;
everything else is DefaultConfig (SQLite store at MT_DB_PATH, default code filter)."""

REWRITERS = ["NoOpRewriter", "RemoveEmptyContainers", "RewriteConfigDict", "RewriteLargeUnion", "RewriteGenerator",
             "RewriteMostSpecificCommonBase", "DEFAULT"]


def make(k, rewriter):
    import monkeytype.typing as mt
    from monkeytype.config import DefaultConfig

    class C(DefaultConfig):
        def max_typed_dict_size(self):
            return k

        def type_rewriter(self):
            if rewriter == "DEFAULT":
                return mt.DEFAULT_REWRITER
            return getattr(mt, rewriter)()

    return C()


def make_ctx(k, rewriter):
    """A project-style Config: the TypedDict limit is a project setting that exists only inside cli_context (after set-up);
    outside it the answer is a large fallback."""
    import contextlib

    base = make(k, rewriter).__class__

    class Ctx(base):
        _inside = False

        @contextlib.contextmanager
        def cli_context(self, command):
            type(self)._inside = True
            try:
                yield
            finally:
                type(self)._inside = False

        def max_typed_dict_size(self):
            return k if type(self)._inside else 10

    return Ctx()


def __getattr__(name):
    if name.startswith("KCTX") and "_" in name:
        k, rw = name[4:].split("_", 1)
        return make_ctx(int(k), rw)
    if name.startswith("K") and "_" in name:
        k, rw = name[1:].split("_", 1)
        return make(int(k), rw)
    raise AttributeError(name)
