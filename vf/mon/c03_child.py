"""Child for C03: runs one workload traced or untraced and prints a JSON report on the last stdout line.
usage: python -m vf.mon.c03_child spec.json"""
import contextlib
import importlib.util
import io
import json
import logging
import os
import sys


class BlockExit(Exception):
    pass


def global_state():
    """Interpreter-wide state that belongs to the program: read after the (traced or untraced) block."""
    import decimal
    import gc
    import signal
    import threading
    import warnings

    return {
        "recursionlimit": sys.getrecursionlimit(), "settrace": repr(sys.gettrace()), "gc_enabled": gc.isenabled(), "gc_threshold": list(gc.get_threshold()),
        "warnings_filters": [repr(f[:3]) for f in warnings.filters], "switchinterval": sys.getswitchinterval(), "cwd": os.getcwd(),
        "environ": sorted(k for k in os.environ if not k.startswith(("VF_", "PYTHON", "MT_"))), "sigint": repr(signal.getsignal(signal.SIGINT)),
        "threads": threading.active_count(), "decimal_prec": decimal.getcontext().prec, "excepthook": sys.excepthook is sys.__excepthook__,
        "stdout_is_original": sys.stdout is sys.__stdout__, "displayhook": sys.displayhook is sys.__displayhook__,
        "threading_profile": repr(getattr(threading, "_profile_hook", None)), "path_len": len(sys.path),
    }


def main():
    spec = json.load(open(sys.argv[1]))
    path = spec["program"]
    sys.path.insert(0, os.path.dirname(path))
    name = os.path.splitext(os.path.basename(path))[0]
    sp = importlib.util.spec_from_file_location(name, path)
    mod = importlib.util.module_from_spec(sp)
    sys.modules[name] = mod
    sp.loader.exec_module(mod)
    from vf.mon import tripwire

    if spec.get("hostile_sys_modules"):
        # what an application may legitimately keep in sys.modules: a lazily loaded module, a settings proxy, a module without a file
        # whose attribute access is the program's own code (both runs have them; only a tracer would touch them)
        import types as _types

        class LazyModule(_types.ModuleType):
            def __getattr__(self, name):
                tripwire.note("module.__getattr__:" + name, self.__name__)
                raise AttributeError(name)

        sys.modules["vf_lazy_plugin"] = LazyModule("vf_lazy_plugin")
        sys.modules["vf_settings_proxy"] = tripwire.GA("sys.modules-proxy")
        os.environ["MONKEYTYPE_TRACE_MODULES"] = name  # (set in both runs: the environment is part of the compared interpreter state)
    report = {"mode": spec["mode"]}
    out = io.StringIO()
    faults = spec.get("faults", {})
    fired = {}

    pending = []

    def body():
        with contextlib.redirect_stdout(out):
            report["results"] = mod.main()
        # a generator (and a coroutine) started inside the block and still suspended when the block is left
        g = mod.gen("pending")
        next(g)
        pending.append(g)

    escaped = None
    if spec["mode"] == "traced":
        import monkeytype.tracing as tracing
        from monkeytype.tracing import CallTraceLogger, trace_calls

        # the containment mechanism reports through the `monkeytype` loggers: keep that off the program's streams
        logging.getLogger("monkeytype").addHandler(logging.StreamHandler(io.StringIO()))
        logging.getLogger("monkeytype").propagate = False

        class L(CallTraceLogger):
            def __init__(self):
                self.n = 0
                self.flushes = 0
                self.logged = 0

            def log(self, trace):
                self.n += 1
                plan = faults.get("log")
                if plan and (plan == "all" or self.n in plan):
                    fired["log"] = fired.get("log", 0) + 1
                    raise RuntimeError("injected: log fails")
                self.logged += 1

            def flush(self):
                self.flushes += 1
                if faults.get("flush"):
                    fired["flush"] = fired.get("flush", 0) + 1
                    raise RuntimeError("injected: flush fails")

        def failing(fn, key):
            state = {"n": 0}

            def shim(*a, **kw):
                state["n"] += 1
                plan = faults.get(key)
                if plan and (plan == "all" or state["n"] in plan):
                    fired[key] = fired.get(key, 0) + 1
                    raise RuntimeError(f"injected: {key} fails")
                return fn(*a, **kw)

            return shim

        if faults.get("get_type"):
            tracing.get_type = failing(tracing.get_type, "get_type")
        if faults.get("get_func"):
            tracing.get_func = failing(tracing.get_func, "get_func")
        logger = L()
        if spec.get("store_logger"):
            # the shipped logger in front of a real (in-memory) SQLite store: what `monkeytype run` and trace(DefaultConfig()) use
            from monkeytype.db.base import CallTraceStoreLogger
            from monkeytype.db.sqlite import SQLiteStore

            class SL(CallTraceStoreLogger):
                def __init__(self, store):
                    super().__init__(store)
                    self.flushes = 0
                    self.logged = 0

                def log(self, trace):
                    self.logged += 1
                    return super().log(trace)

                def flush(self):
                    self.flushes += 1
                    return super().flush()

            logger = SL(SQLiteStore.make_store(":memory:"))
        pre = (lambda frame, event, arg: None) if spec.get("preprofiler") else None
        sys.setprofile(pre)
        callbacks = {"n": 0}

        dflt = None
        if spec.get("default_filter"):
            # the shipped default filter with a module allow-list (it reads the environment at every call)
            from monkeytype.config import default_code_filter as dflt

        def flt(code):
            ok = bool(dflt(code)) if dflt is not None else code.co_filename == path
            if ok:
                callbacks["n"] += 1
            return ok

        try:
            with trace_calls(logger, spec.get("k", 0), flt, spec.get("sample_rate")):
                body()
                if spec.get("program_sets_profile"):
                    # the traced program uses sys.setprofile itself and leaves it different from the tracer
                    sys.setprofile(lambda frame, event, arg: None)
                    sys.setprofile(None)
                if spec.get("exit") == "exception":
                    raise BlockExit()
        except BlockExit:
            report["block_exception_seen"] = True
        except BaseException as e:  # noqa
            escaped = f"{type(e).__name__}: {e}"
        report["profiler_restored"] = sys.getprofile() is pre
        report["profiler_after"] = repr(sys.getprofile())[:80]
        sys.setprofile(None)
        report["flushes"] = logger.flushes
        report["logged"] = logger.logged
        report["tracer_callbacks"] = callbacks["n"]
    else:
        try:
            body()
            if spec.get("exit") == "exception":
                raise BlockExit()
        except BlockExit:
            report["block_exception_seen"] = True
        except BaseException as e:  # noqa
            escaped = f"{type(e).__name__}: {e}"
    report["escaped"] = escaped
    report["pending_finished_after_block"] = [repr(x)[:20] for g in pending for x in g]
    report["global_state"] = global_state()
    report["fired"] = fired
    report["stdout"] = out.getvalue()
    report["journal"] = tripwire.JOURNAL
    report["armed"] = sorted(tripwire.ARMED)
    print("\nVFREPORT " + json.dumps(report))


if __name__ == "__main__":
    main()
