"""Ground-truth records written by driver scripts that run inside `monkeytype run` (same process as the harness)."""
RECORDS = []
