"""Child for C14: perturb memory layout, then run `monkeytype <argv>` and print its stdout.
usage: python -m vf.mon.stub_child <perturb n> <argv...>"""
import sys


def main():
    n = int(sys.argv[1])
    keep = []
    for i in range(n):
        keep.append(type(f"Pad{i}", (), {"x": i}))
        keep.append([object() for _ in range(i % 7)])
    from monkeytype import cli

    rc = cli.main(sys.argv[2:], sys.stdout, sys.stderr)
    sys.stdout.flush()
    sys.exit(rc)


if __name__ == "__main__":
    main()
