"""Tripwire classes: every user-definable protocol entry journals (hook, label, monkeytype call site).
DESIGN 5.2.  Lives outside the traced program file; programs subclass / instantiate these."""
import os
import sys

JOURNAL = []  # [hook, label, site]  site = 'file.py:function' of the innermost monkeytype frame, or None
COUNTER = {"n": 0}
_REPO = os.path.realpath(os.environ.get("VF_REPO", "/repo"))
_MT = os.path.join(_REPO, "monkeytype") + os.sep
ARMED = set()
EVENTS = []


class Fin:
    """A local whose release time is observable: tracing must not make the locals of a call outlive it."""

    def __init__(self, label):
        self.label = label

    def __del__(self):
        EVENTS.append("fin:" + self.label)


def _site():
    """The innermost monkeytype frame on the stack as `file:function`; when the hook was reached through Python-level library code
    other than `typing` (abc's subclass check, inspect, functools ...), the library function it called is appended (`:via-abc.py:...`)."""
    f = sys._getframe(2)
    inner = None  # the frame just inside (called from) the frame under inspection
    while f is not None:
        fn = f.f_code.co_filename
        if fn.startswith(_MT) or os.path.realpath(fn).startswith(_MT):
            site = os.path.basename(fn) + ":" + f.f_code.co_name
            if inner is not None and os.path.basename(inner.f_code.co_filename) not in ("typing.py", "tripwire.py") and not inner.f_code.co_filename.startswith(_MT):
                site += ":via-" + os.path.basename(inner.f_code.co_filename) + ":" + inner.f_code.co_name
            return site
        inner = f
        f = f.f_back
    return None


def note(hook, label, mutate=True):
    site = _site()
    JOURNAL.append([hook, label, site])
    if mutate:
        COUNTER["n"] += 1


def _label(obj):
    try:
        return object.__getattribute__(obj, "_label")
    except Exception:
        return type(obj).__name__


class GA:
    """__getattribute__ journals every attribute access."""

    def __init__(self, label="GA"):
        object.__setattr__(self, "_label", label)

    def __getattribute__(self, name):
        if name != "_label":
            note("__getattribute__:" + name, _label(self))
        return object.__getattribute__(self, name)


class GAcall(GA):
    def __call__(self, *a):
        return 1


class GN:
    """__getattr__ journals lookups of missing attributes (and fabricates nothing)."""

    def __init__(self, label="GN"):
        self._label = label

    def __getattr__(self, name):
        note("__getattr__:" + name, _label(self))
        raise AttributeError(name)


class GNcall(GN):
    def __call__(self, *a):
        return 1


class GNfab:
    """A mock-like object: fabricates any missing attribute (journalled)."""

    def __init__(self, label="GNfab"):
        self._label = label

    def __getattr__(self, name):
        note("__getattr__:" + name, _label(self))
        if name.startswith("__") and name not in ("__code__", "__wrapped__"):
            raise AttributeError(name)
        return None

    def __call__(self, *a):
        return 1


class CP:
    """__class__ is a journalling property (returns the real class)."""

    def __init__(self, label="CP"):
        self._label = label

    @property
    def __class__(self):
        note("__class__", _label(self))
        return CP


class CPlie:
    """__class__ lies (a proxy pretending to be an int) and journals."""

    def __init__(self, label="CPlie"):
        self._label = label

    @property
    def __class__(self):
        note("__class__", _label(self))
        return int


class CPraise:
    """__class__ raises: an object whose inspection fails."""

    def __init__(self, label="CPraise"):
        self._label = label

    @property
    def __class__(self):
        note("__class__", _label(self))
        raise RuntimeError("inspection of this object fails")


class Lazy:
    """Lazy proxy: touching __class__ materialises it (visible state)."""

    def __init__(self, label="Lazy"):
        self._label = label
        self.forced = False

    @property
    def __class__(self):
        note("__class__", _label(self))
        object.__getattribute__(self, "__dict__")["forced"] = True
        return Lazy


class Desc:
    def __init__(self, label):
        self.label = label

    def __get__(self, obj, owner):
        note("descriptor.__get__", self.label)
        return 42


class DS:
    """Side-effecting descriptor and lazy property, also under the names of traced functions."""

    d = Desc("DS.d")

    def __init__(self, label="DS"):
        self._label = label

    @property
    def lazy(self):
        note("property:lazy", _label(self))
        return 1


class TL(list):
    _label = "TL"

    def __iter__(self):
        note("list.__iter__", self._label)
        return list.__iter__(self)

    def __len__(self):
        note("list.__len__", self._label)
        return list.__len__(self)

    def __getitem__(self, i):
        note("list.__getitem__", self._label)
        return list.__getitem__(self, i)

    def __contains__(self, x):
        note("list.__contains__", self._label)
        return list.__contains__(self, x)


class TD(dict):
    _label = "TD"

    def keys(self):
        note("dict.keys", self._label)
        return dict.keys(self)

    def values(self):
        note("dict.values", self._label)
        return dict.values(self)

    def items(self):
        note("dict.items", self._label)
        return dict.items(self)

    def __iter__(self):
        note("dict.__iter__", self._label)
        return dict.__iter__(self)

    def __len__(self):
        note("dict.__len__", self._label)
        return dict.__len__(self)

    def __getitem__(self, k):
        note("dict.__getitem__", self._label)
        return dict.__getitem__(self, k)

    def __contains__(self, k):
        note("dict.__contains__", self._label)
        return dict.__contains__(self, k)


class TS(set):
    _label = "TS"

    def __iter__(self):
        note("set.__iter__", self._label)
        return set.__iter__(self)

    def __len__(self):
        note("set.__len__", self._label)
        return set.__len__(self)

    def __contains__(self, x):
        note("set.__contains__", self._label)
        return set.__contains__(self, x)


class TT(tuple):
    _label = "TT"

    def __iter__(self):
        note("tuple.__iter__", self._label)
        return tuple.__iter__(self)

    def __len__(self):
        note("tuple.__len__", self._label)
        return tuple.__len__(self)

    def __getitem__(self, i):
        note("tuple.__getitem__", self._label)
        return tuple.__getitem__(self, i)


class HB:
    """hash / eq / bool / repr / str / format / len / call journal."""

    def __init__(self, label="HB", v=0):
        self._label = label
        self.v = v

    def __hash__(self):
        note("__hash__", self._label)
        return hash(self.v)

    def __eq__(self, o):
        note("__eq__", self._label)
        return self is o

    def __bool__(self):
        note("__bool__", self._label)
        return True

    def __repr__(self):
        note("__repr__", self._label)
        return "<HB>"

    def __str__(self):
        note("__str__", self._label)
        return "HB"

    def __format__(self, spec):
        note("__format__", self._label)
        return "HB"

    def __len__(self):
        note("__len__", self._label)
        return 3

    def __call__(self, *a):
        note("__call__", self._label)
        return 1


class SK(str):
    """A str subclass (StrEnum-like) used as a dict key: hashing / comparing it is user code."""

    _label = "SK"

    def __hash__(self):
        note("str.__hash__", self._label)
        return str.__hash__(self)

    def __eq__(self, o):
        note("str.__eq__", self._label)
        return str.__eq__(self, o)

    def __ne__(self, o):
        note("str.__ne__", self._label)
        return str.__ne__(self, o)

    def __str__(self):
        note("str.__str__", self._label)
        return str.__str__(self)

    def __repr__(self):
        note("str.__repr__", self._label)
        return str.__repr__(self)


class Meta(type):
    def __instancecheck__(cls, obj):
        note("metaclass.__instancecheck__", cls.__name__)
        return type.__instancecheck__(cls, obj)

    def __subclasscheck__(cls, sub):
        note("metaclass.__subclasscheck__", cls.__name__)
        return type.__subclasscheck__(cls, sub)

    def __getattribute__(cls, name):
        if name not in ("__name__", "__dict__", "__mro__", "__class__"):
            note("metaclass.__getattribute__:" + name, type.__getattribute__(cls, "__name__"))
        return type.__getattribute__(cls, name)


class HashMeta(type):
    """A metaclass whose hashing / equality of the CLASS objects is the program's own code (registries keyed by class do this)."""

    def __hash__(cls):
        note("metaclass.__hash__", type.__getattribute__(cls, "__name__"))
        return type.__hash__(cls)

    def __eq__(cls, other):
        note("metaclass.__eq__", type.__getattribute__(cls, "__name__"))
        return cls is other


class MH(metaclass=HashMeta):
    def __init__(self, label="MH"):
        self._label = label


class MI(metaclass=Meta):
    def __init__(self, label="MI"):
        self._label = label


KINDS = {
    "GA": "GA('{l}')", "GN": "GN('{l}')", "CP": "CP('{l}')", "CPlie": "CPlie('{l}')", "CPraise": "CPraise('{l}')", "Lazy": "Lazy('{l}')",
    "DS": "DS('{l}')", "TL": "TL([1, 2])", "TD": "TD(a=1)", "TS": "TS({1})", "TT": "TT((1, 2))", "HB": "HB('{l}')", "MI": "MI('{l}')",
    "MIclass": "MI", "GAcall": "GAcall('{l}')", "GNcall": "GNcall('{l}')", "GNfab": "GNfab('{l}')", "SK": "SK('key')",
    # an exact, empty collections.defaultdict whose factory is the program's own (stateful) function
    "DF": "mk('DF', '{l}')",
    # instances (and the class object itself) of a class whose metaclass journals hashing and comparing the class
    "MH": "MH('{l}')", "MHclass": "MH",
    # builtin wrappers (exact builtin types) that forward the container protocol to a program object: a read-only proxy of a journaling
    # dict, a ChainMap-free `reversed` / iterator over a journaling list
    "MP": "mk('MP', '{l}')", "IT": "mk('IT', '{l}')",
}
HASHABLE = {"MH", "SK", "GA", "GN", "CP", "CPlie", "CPraise", "Lazy", "DS", "TT", "HB", "MI", "MIclass", "GAcall", "GNcall", "GNfab"}
CALLABLE = {"HB", "GAcall", "GNcall", "GNfab", "MIclass"}


def _factory(label):
    def make_default():
        note("default_factory", label)
        return COUNTER["n"]

    return make_default


def mk(kind, label):
    ARMED.add(kind)
    if kind == "DF":
        import collections

        return collections.defaultdict(_factory(label))
    if kind == "MP":
        import types

        obj = TD(a=1, b="x")
        obj._label = label
        return types.MappingProxyType(obj)
    if kind == "IT":
        obj = TL([1, "x"])
        obj._label = label
        return list.__iter__(obj)  # a list_iterator over the program's list: consuming it would be visible to the program
    if kind == "MIclass":
        return MI
    if kind == "MHclass":
        return MH
    if kind in ("TL", "TD", "TS", "TT", "SK"):
        obj = {"TL": lambda: TL([1, 2]), "TD": lambda: TD(a=1), "TS": lambda: TS({1}), "TT": lambda: TT((1, 2)), "SK": lambda: SK("key")}[kind]()
        obj._label = label
        return obj
    return globals()[kind](label)
