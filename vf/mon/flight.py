"""Flight recorder: the interpreter's own account (sys.monitoring) of what the program did.  DESIGN 5.1."""
import inspect
import opcode
import sys
import threading

TOOL = 4
E = sys.monitoring.events
RETURN_CONST = opcode.opmap.get("RETURN_CONST")
YIELD_VALUE = opcode.opmap["YIELD_VALUE"]


class Flight:
    def __init__(self, filename, typer):
        self.filename = filename
        self.typer = typer
        self.live = {}  # frame -> record
        self.done = []  # completion order
        self.call_events = 0
        self.active = False
        self.home = threading.get_ident()  # the thread the tracer under test is installed on
        self.off_thread_ids = set()  # id() of frames that finished on another thread (ids only: the frames must stay collectable)

    # -- helpers
    def _named(self, code):
        return code.co_varnames[: code.co_argcount + code.co_kwonlyargcount]

    def _snapshot(self, frame, code):
        loc = frame.f_locals
        out = {}
        for n in self._named(code):
            if n in loc:
                out[n] = self.typer(loc[n])
        return out

    # -- callbacks
    def _start(self, code, offset, frame=None):
        if code.co_filename != self.filename:
            return sys.monitoring.DISABLE
        frame = frame or sys._getframe(1)
        self.call_events += 1
        rec = {
            "code": code, "qual": code.co_qualname, "args": self._snapshot(frame, code), "yields": [], "suspensions": 0,
            "resumes": [], "yields_before_resume": [], "ret": None, "exc": None, "thrown": 0, "last": "start", "seq": None,
            "flags": code.co_flags, "const_return": False, "off_thread": threading.get_ident() != self.home,
        }
        self.live[frame] = rec

    def _resume(self, code, offset):
        if code.co_filename != self.filename:
            return sys.monitoring.DISABLE
        frame = sys._getframe(1)
        self.call_events += 1
        rec = self.live.get(frame)
        if rec is not None:
            rec["resumes"].append(self._snapshot(frame, code))
            rec["yields_before_resume"].append(len(rec["yields"]))
            rec["last"] = "resume"

    def _yield(self, code, offset, retval):
        if code.co_filename != self.filename:
            return sys.monitoring.DISABLE
        rec = self.live.get(sys._getframe(1))
        if rec is not None:
            if code.co_flags & inspect.CO_COROUTINE:
                rec["suspensions"] += 1
            else:
                rec["yields"].append(self.typer(retval))
            if rec["last"] == "throw" and rec.get("throw_offset") == offset and retval is None:
                rec["reyield_none_at_throw_site"] = True
            rec["last"] = "yield"

    def _finish(self, frame, rec):
        if threading.get_ident() != self.home:
            rec["off_thread"] = True  # the profile function is per thread: the tracer cannot have seen this end
            self.off_thread_ids.add(id(frame))
        rec["seq"] = len(self.done)
        self.done.append(rec)
        self.live.pop(frame, None)

    def _return(self, code, offset, retval):
        if code.co_filename != self.filename:
            return sys.monitoring.DISABLE
        frame = sys._getframe(1)
        rec = self.live.get(frame)
        if rec is not None:
            rec["ret"] = self.typer(retval)
            rec["const_return"] = code.co_code[offset] == RETURN_CONST
            rec["how"] = "return"
            self._finish(frame, rec)

    def _throw(self, code, offset, exc):
        if code.co_filename != self.filename:
            return
        frame = sys._getframe(1)
        rec = self.live.get(frame)
        if rec is None:
            if frame.f_lasti >= 0 and code.co_code[frame.f_lasti] == YIELD_VALUE:
                return  # suspended at a yield: it started before recording began - not ours to account for
            # exception thrown into a generator that never started: the frame is entered here for the first time
            self._start(code, offset, frame)
            rec = self.live.get(frame)
            if rec is not None:
                rec["args"] = self._snapshot(frame, code)
                self.call_events -= 1
        if rec is not None:
            self.call_events += 1
            rec["thrown"] += 1
            rec["throw_offset"] = offset
            rec["last"] = "throw"

    def _unwind(self, code, offset, exc):
        if code.co_filename != self.filename:
            return
        frame = sys._getframe(1)
        rec = self.live.get(frame)
        if rec is not None:
            rec["exc"] = type(exc).__name__
            at_yield = frame.f_lasti >= 0 and code.co_code[frame.f_lasti] == YIELD_VALUE
            rec["how"] = "unwind-at-suspended-yield" if rec["last"] == "throw" and at_yield else "unwind"
            self._finish(frame, rec)

    def start(self):
        m = sys.monitoring
        m.use_tool_id(TOOL, "vf-flight")
        m.register_callback(TOOL, E.PY_START, self._start)
        m.register_callback(TOOL, E.PY_RESUME, self._resume)
        m.register_callback(TOOL, E.PY_YIELD, self._yield)
        m.register_callback(TOOL, E.PY_RETURN, self._return)
        m.register_callback(TOOL, E.PY_THROW, self._throw)
        m.register_callback(TOOL, E.PY_UNWIND, self._unwind)
        m.set_events(TOOL, E.PY_START | E.PY_RESUME | E.PY_YIELD | E.PY_RETURN | E.PY_THROW | E.PY_UNWIND)
        self.active = True

    def stop(self):
        m = sys.monitoring
        if self.active:
            m.set_events(TOOL, 0)
            for ev in (E.PY_START, E.PY_RESUME, E.PY_YIELD, E.PY_RETURN, E.PY_THROW, E.PY_UNWIND):
                m.register_callback(TOOL, ev, None)
            m.free_tool_id(TOOL)
            self.active = False
