"""Driver: interprets the entries of a generated program from outside the program file."""
import gc


def tname(v):
    return type(v).__qualname__


def run_entries(mod, entries, results=None, cap=2000, slots=None, keep=False):
    ns = mod.__dict__
    Err = ns["Err"]
    slots = {} if slots is None else slots
    results = [] if results is None else results

    def step(s):
        st = slots.get(s)
        if not st or not st[1]:
            return False
        try:
            v = st[0].send(None)
            results.append(("yielded", s, tname(v)))
            return True
        except StopIteration as e:
            st[1] = False
            results.append(("finished", s, tname(e.value)))
        except Exception as e:  # noqa
            st[1] = False
            results.append(("raised", s, type(e).__name__))
        return False

    for e in entries:
        op = e[0]
        if op == "call":
            try:
                results.append(("ok", tname(eval(e[1], ns))))  # noqa: S307
            except Exception as ex:  # noqa
                results.append(("exc", type(ex).__name__, str(ex)[:60]))
        elif op == "spawn":
            try:
                slots[e[1]] = [eval(e[2], ns), True]  # noqa: S307
            except Exception as ex:  # noqa
                results.append(("spawn-exc", type(ex).__name__))
        elif op == "step":
            step(e[1])
        elif op == "exhaust":
            n = 0
            while step(e[1]) and n < cap:
                n += 1
        elif op == "thread-exhaust":
            # the object is finished by a worker thread, where no profile function is installed
            import threading

            def run(s=e[1]):
                n = 0
                while step(s) and n < cap:
                    n += 1

            t = threading.Thread(target=run)
            t.start()
            t.join()
            del t, run
        elif op in ("close", "throw", "drop"):
            st = slots.get(e[1])
            if not st:
                continue
            try:
                if op == "close":
                    st[0].close()
                elif op == "throw":
                    v = st[0].throw(Err("thrown"))
                    results.append(("yielded-after-throw", e[1], tname(v)))
                    continue  # caught inside: still alive
                else:
                    del slots[e[1]]
                    del st
                    gc.collect()
                    continue
            except Exception as ex:  # noqa
                results.append((op + "-exc", type(ex).__name__))
            st[1] = False
    if not keep:
        slots.clear()
        gc.collect()
    return results
