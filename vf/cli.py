"""./check <property> [--tier quick|thorough] [--replay path]"""
import argparse
import importlib
import os
import sys


def main(argv=None):
    ap = argparse.ArgumentParser()
    ap.add_argument("prop")
    ap.add_argument("--tier", default=os.environ.get("VERIF_TIER", "quick"), choices=["quick", "thorough"])
    ap.add_argument("--seed", type=int, default=int(os.environ.get("VERIF_SEED", "0") or 0))
    ap.add_argument("--replay", default=None)
    a = ap.parse_args(argv)
    from vf import core

    os.environ.update({k: v for k, v in core.child_env().items() if k in ("PYTHONPATH", "PYTHONDONTWRITEBYTECODE", "VF_REPO")})
    core.assert_repo()
    prop = a.prop.upper()
    mod = importlib.import_module(f"vf.props.{prop.lower()}")
    ck = core.Check(prop, a.tier, a.seed)
    try:
        if a.replay:
            rc = mod.replay(ck, a.replay)
        else:
            rc = mod.run(ck)
    finally:
        core.cleanup()
    return rc


if __name__ == "__main__":
    sys.exit(main())
