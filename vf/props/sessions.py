"""In-process tracing sessions: several tracing blocks in ONE interpreter that share a logger object / a Config object while the
code filter, the TypedDict limit and the set of called functions change from block to block (API entry points
`monkeytype.tracing.trace_calls` and `monkeytype.trace(config)`).  Shared by C17 (what is recorded) and C06 (limit in force).

Oracle per block b: the functions logged during b are exactly called_b & accepted_b, attributed to the code that ran; every
TypedDict in a trace logged during b has at most k_b keys (none for k_b = 0)."""
import importlib
import os
import random
import shutil
import sys

from vf import core
from vf.oracle import rt as RT

SOURCE = '''
def f0(a):
    return {'p': a}


def f1(a, b=1):
    return [{'p': a, 'q': b, 'r': None}]


def f2(d):
    return len(d)


def f3(a):
    return {'k%d' % i: i for i in range(a)}


class K:
    def m0(self, a):
        return ({'p': a, 'q': 1, 'r': 2, 's': 3},)

    @staticmethod
    def s0(d):
        return d

    @classmethod
    def c0(cls, a):
        yield {'x': a}
        yield {'y': a, 'z': a}


def g0(n):
    for i in range(n):
        yield {'i': i, 'sq': i * i, 'cu': i}
'''
CALLS = {
    "f0": "M.f0(1)", "f1": "M.f1('s')", "f2": "M.f2({'a': 1, 'b': 2, 'c': 3})", "f3": "M.f3(4)", "K.m0": "M.K().m0(1)", "K.s0": "M.K.s0({'u': 1, 'v': 's'})",
    "K.c0": "list(M.K.c0(1))", "g0": "list(M.g0(2))",
}
KS = [10, 3, 0, 2, 1, 0, 3, 10, 2]


def td_sizes(t):
    return [len(x[1]) + len(x[2]) for x in RT.walk(RT.to_rt(t)) if x[0] == "td"]


def work(p):
    from monkeytype.config import Config
    from monkeytype.tracing import CallTraceLogger, trace_calls
    import monkeytype

    res17, res06 = core.Res(), core.Res()
    d = core.scratch("sess")
    sys.path.insert(0, d)
    for case in p["cases"]:
        rng = random.Random(case["seed"])
        name = "vfsess_" + case["id"]
        path = os.path.join(d, name + ".py")
        open(path, "w").write(SOURCE)
        importlib.invalidate_caches()
        M = importlib.import_module(name)
        quals = sorted(CALLS)

        class L(CallTraceLogger):
            def __init__(self):
                self.block = None
                self.logged = []  # (block, trace)
                self.flushes = 0

            def log(self, t):
                self.logged.append((self.block, t))

            def flush(self):
                self.flushes += 1

        state = {}

        class Cfg(Config):
            def __init__(self, lg):
                self.lg = lg

            def trace_store(self):
                raise NotImplementedError

            def trace_logger(self):
                return self.lg

            def code_filter(self):
                return state["filter"]

            def max_typed_dict_size(self):
                return state["k"]

            def sample_rate(self):
                return None

        for mode in case["modes"]:
            lg = L()
            cfg = Cfg(lg)
            blocks = []
            nblocks = case.get("blocks", 6)
            for b in range(nblocks):
                accepted = set(rng.sample(quals, rng.randint(0, len(quals))))
                if b == 1 and rng.random() < 0.5:
                    accepted = None  # a block without any filter
                called = rng.sample(quals, rng.randint(1, len(quals)))
                k = KS[(b + case.get("koff", 0)) % len(KS)]
                codes = {q: eval("M." + q, {"M": M}) for q in quals}  # noqa: S307
                acc_codes = None if accepted is None else {getattr(getattr(codes[q], "__func__", codes[q]), "__code__") for q in accepted}

                def flt(code, acc_codes=acc_codes):
                    return code.co_filename == path and code in acc_codes

                the_filter = None if accepted is None else flt
                lg.block = b
                if mode == "trace_calls-same-logger":
                    with trace_calls(lg, k, the_filter):
                        for q in called:
                            eval(CALLS[q], {"M": M})  # noqa: S307
                else:
                    state["filter"], state["k"] = the_filter, k
                    with monkeytype.trace(cfg):
                        for q in called:
                            eval(CALLS[q], {"M": M})  # noqa: S307
                blocks.append((accepted, called, k))
            lg.block = None
            for b, (accepted, called, k) in enumerate(blocks):
                res17.count("evaluations")
                res17.count("session_blocks")
                res06.count("evaluations")
                res06.count("session_blocks")
                got = [t for bb, t in lg.logged if bb == b and getattr(t.func, "__module__", None) == name]
                gotq = sorted({t.func.__qualname__ for t in got})
                want = sorted(set(called) if accepted is None else set(called) & accepted)
                wit = {"case": case, "mode": mode, "block": b, "accepted": None if accepted is None else sorted(accepted), "called": called, "k": k}
                res17.shape(f"{mode}|{b}|{len(want)}|{accepted is None}")
                res17.seen("session_modes", mode)
                if gotq != want:
                    extra, missing = sorted(set(gotq) - set(want)), sorted(set(want) - set(gotq))
                    key = "rejected-function-recorded:later-block-of-a-session" if extra else "accepted-function-not-recorded:later-block-of-a-session"
                    if b == 0:
                        key = key.replace(":later-block-of-a-session", ":first-block")
                    res17.violation(key, f"{mode}, block {b}: logged {gotq}, expected {want} (filter accepts {wit['accepted']})", wit)
                res17.count("accepted_functions", len(want))
                for t in got:
                    sizes = [s for ty in list((t.arg_types or {}).values()) + [t.return_type, t.yield_type] if ty is not None for s in td_sizes(ty)]
                    res06.count("session_traces_scanned")
                    res06.count("session_typeddict_nodes", len(sizes))
                    if k == 0 and sizes:
                        res06.violation("typeddict-in-trace-with-limit-zero:later-block-of-a-session" if b else "typeddict-in-trace-with-limit-zero",
                                        f"{mode}, block {b} (limit 0): {t.func.__qualname__} logged with a TypedDict", wit)
                    elif sizes and max(sizes) > k:
                        res06.violation("typeddict-over-limit-in-trace:later-block-of-a-session" if b else "typeddict-over-limit-in-trace",
                                        f"{mode}, block {b} (limit {k}): {t.func.__qualname__} logged with a TypedDict of {max(sizes)} keys", wit)
                    elif sizes and min(sizes) == 0:
                        res06.violation("empty-typeddict-in-trace", f"{mode}, block {b}", wit)
            if lg.flushes != len(blocks):
                res17.violation("flush-count:session", f"{mode}: {lg.flushes} flushes for {len(blocks)} blocks", {"case": case, "mode": mode})
        sys.modules.pop(name, None)
        os.remove(path)
    sys.path.remove(d)
    shutil.rmtree(d, ignore_errors=True)
    return {"C17": res17.out(), "C06": res06.out()}


def cases(ck, n):
    return [{"id": f"{ck.seed}_{i}", "seed": f"sessions:{ck.seed}:{i}", "modes": ["trace_calls-same-logger", "trace-config-same-config"], "blocks": 6, "koff": i}
            for i in range(n)]


def run_into(ck, prop, n):
    cs = cases(ck, n)
    m = min(core.NPROC, len(cs))
    for r in core.pmap("vf.props.sessions:work", [{"cases": cs[i::m]} for i in range(m)], timeout=1200):
        if r is None or "harness_error" in r or "mt_exception" in r:
            ck.merge(r)
        else:
            ck.merge(r[prop])
