"""In-process tracing sessions: several tracing blocks in ONE interpreter that share a logger object / a Config object while the
code filter, the TypedDict limit and the set of called functions change from block to block (API entry points
`monkeytype.tracing.trace_calls` and `monkeytype.trace(config)`).  Shared by C17 (what is recorded) and C06 (limit in force).

Oracle per block b: the functions logged during b are exactly called_b & accepted_b, attributed to the code that ran; every
TypedDict in a trace logged during b has at most k_b keys (none for k_b = 0)."""
import importlib
import os
import random
import shutil
import sys

from vf import core
from vf.oracle import rt as RT

SOURCE = '''
def f0(a):
    return {'p': a}


def f1(a, b=1):
    return [{'p': a, 'q': b, 'r': None}]


def f2(d):
    return len(d)


def f3(a):
    return {'k%d' % i: i for i in range(a)}


class K:
    def m0(self, a):
        return ({'p': a, 'q': 1, 'r': 2, 's': 3},)

    @staticmethod
    def s0(d):
        return d

    @classmethod
    def c0(cls, a):
        yield {'x': a}
        yield {'y': a, 'z': a}


def g0(n):
    for i in range(n):
        yield {'i': i, 'sq': i * i, 'cu': i}


def late(a):
    return a


def pipeline(x):
    bump = lambda v: v + 1  # noqa: E731 - a lambda held in a local of a frame on the stack: findable, hence recorded when accepted
    return bump(x)


def plain_deco(f):
    def w(*a, **k):  # a decorator that does NOT use functools.wraps: the decorated function is reachable through w's closure only
        return f(*a, **k)
    return w


@plain_deco
def hidden(a):
    return {'h': a}


class K2:
    @plain_deco
    def hm(self, a):
        return a


def make_counter():
    def count(n):  # refers to itself; after make_counter returned, only its own closure cell (and HANDLERS) lead to it
        return 0 if n <= 0 else 1 + count(n - 1)
    return count


HANDLERS = {'count': make_counter()}


def dispatch(name, arg):
    return HANDLERS[name](arg)


def definer(levels):
    def leaf(v):  # held by definer's frame only; reaches its first call through a container, `levels` frames further down
        return v
    return descend(levels, [leaf])


def descend(n, box):
    if n:
        return descend(n - 1, box)
    return box[0](1)


import functools  # noqa: E402


class CountCalls:
    """a class-based decorator: the module-level name is bound to an object that is not a function but carries __wrapped__"""

    def __init__(self, f):
        functools.update_wrapper(self, f)
        self.f = f
        self.n = 0

    def __call__(self, *a, **k):
        self.n += 1
        return self.f(*a, **k)


@CountCalls
def counted(a):
    return [a]


@functools.lru_cache(maxsize=None)
def cached_fn(a):
    return {'c': a}
'''
CALLS = {
    "f0": "M.f0(1)", "f1": "M.f1('s')", "f2": "M.f2({'a': 1, 'b': 2, 'c': 3})", "f3": "M.f3(4)", "K.m0": "M.K().m0(1)", "K.s0": "M.K.s0({'u': 1, 'v': 's'})",
    "K.c0": "list(M.K.c0(1))", "g0": "list(M.g0(2))", "late": "M.late(1)", "pipeline": "M.pipeline(1)",
    "hidden": "M.hidden(1)", "K2.hm": "M.K2().hm('s')", "dispatch": "M.dispatch('count', 2)",
    "counted": "M.counted(1)", "cached_fn": "(M.cached_fn.cache_clear(), M.cached_fn(1))", "definer": "M.definer(100)",
}
LAMBDA = "pipeline.<locals>.<lambda>"
WRAPPER = "plain_deco.<locals>.w"
HIDDEN, HM, COUNT = "hidden", "K2.hm", "make_counter.<locals>.count"
# what runs (beyond the called name itself) when a CALLS entry is evaluated; "hidden" / "K2.hm" name the wrapper at module level, the
# decorated function keeps its own qualified name
LEAF = "definer.<locals>.leaf"
ALSO_RUNS = {"pipeline": [LAMBDA], "hidden": [WRAPPER, "hidden:inner"], "K2.hm": [WRAPPER, "K2.hm:inner"], "dispatch": [COUNT],
             "counted": ["CountCalls.__call__:code", "counted:inner"], "cached_fn": ["cached_fn:inner"], "definer": ["descend", LEAF]}
KS = [10, 3, 0, 2, 1, 0, 3, 10, 2]


def td_sizes(t):
    return [len(x[1]) + len(x[2]) for x in RT.walk(RT.to_rt(t)) if x[0] == "td"]


def work(p):
    from monkeytype.config import Config
    from monkeytype.tracing import CallTraceLogger, trace_calls
    import monkeytype

    res17, res06, res02, res18 = core.Res(), core.Res(), core.Res(), core.Res()
    d = core.scratch("sess")
    sys.path.insert(0, d)
    for case in p["cases"]:
        rng = random.Random(case["seed"])
        name = modname = "vfsess_" + case["id"]
        path = os.path.join(d, name + ".py")
        open(path, "w").write(SOURCE)
        importlib.invalidate_caches()
        if case.get("main_ns"):
            # the same source executed as the running script: its functions live in a namespace whose __name__ is "__main__"
            # (a custom logger receives them like any other accepted function; only the store logger drops them)
            ns = {"__name__": "__main__", "__file__": path}
            exec(compile(SOURCE, path, "exec"), ns)  # noqa: S102

            class NS:
                def __getattr__(self, k):
                    return ns[k]

                def __setattr__(self, k, v):
                    ns[k] = v

                def __delattr__(self, k):
                    del ns[k]

            M, name = NS(), "__main__"
        else:
            M = importlib.import_module(name)
        # the same source once more in another file: every function has a code-equal twin there, which the per-block filters reject
        twin = None
        if not case.get("main_ns"):
            tpath = os.path.join(d, name + "_twin.py")
            open(tpath, "w").write(SOURCE)
            importlib.invalidate_caches()
            twin = importlib.import_module(name + "_twin")
        quals = sorted(CALLS)

        class L(CallTraceLogger):
            def __init__(self):
                self.block = None
                self.logged = []  # (block, trace)
                self.flushes = 0

            def log(self, t):
                self.logged.append((self.block, t))

            def flush(self):
                self.flushes += 1

        state = {}

        class Cfg(Config):
            def __init__(self, lg):
                self.lg = lg

            def trace_store(self):
                raise NotImplementedError

            def trace_logger(self):
                return self.lg

            def code_filter(self):
                return state["filter"]

            def max_typed_dict_size(self):
                return state["k"]

            def sample_rate(self):
                return state.get("rate")

        lam_code = next(c for c in M.pipeline.__code__.co_consts if hasattr(c, "co_code"))
        special = {LAMBDA: lam_code, WRAPPER: M.hidden.__code__, "hidden:inner": M.hidden.__closure__[0].cell_contents.__code__,
                   "K2.hm:inner": M.K2.__dict__["hm"].__closure__[0].cell_contents.__code__, COUNT: M.HANDLERS["count"].__code__,
                   "CountCalls.__call__:code": M.CountCalls.__call__.__code__, "counted:inner": M.counted.f.__code__, "cached_fn:inner": M.cached_fn.__wrapped__.__code__,
                   LEAF: next(c for c in M.definer.__code__.co_consts if hasattr(c, "co_code") and c.co_name == "leaf"), "descend": M.descend.__code__}
        # qualified name under which a trace of that code is logged
        logged_as = {LAMBDA: LAMBDA, WRAPPER: WRAPPER, "hidden:inner": "hidden", "K2.hm:inner": "K2.hm", COUNT: COUNT,
                     "CountCalls.__call__:code": "CountCalls.__call__", "counted:inner": "counted", "cached_fn:inner": "cached_fn", LEAF: LEAF, "descend": "descend"}
        plain = [q for q in quals if q not in ("hidden", "K2.hm", "counted", "cached_fn")]  # (these names are bound to wrappers)
        for mode in case["modes"]:
            lg = L()
            cfg = Cfg(lg)
            blocks = []
            nblocks = case.get("blocks", 6)
            # the module function `late` is first called while its name is not bound anywhere a tracer could find it (block 0),
            # later it is an ordinary module function again
            holder = [M.late]
            for b in range(nblocks):
                universe = plain + sorted(special)
                accepted = set(rng.sample(universe, rng.randint(0, len(universe))))
                if b == 1 and rng.random() < 0.5:
                    accepted = None  # a block without any filter
                called = rng.sample(quals, rng.randint(1, len(quals)))
                k = KS[(b + case.get("koff", 0)) % len(KS)]
                rate = [None, None, 3, None, 50, 1, None][(b + case.get("koff", 0)) % 7] if case.get("rates") else None
                codes = {q: eval("M." + q, {"M": M}) for q in plain}  # noqa: S307
                codes = {q: getattr(getattr(v, "__func__", v), "__code__") for q, v in codes.items()}
                codes.update(special)
                acc_codes = None if accepted is None else {codes[q] for q in accepted}

                def flt(code, acc_codes=acc_codes):
                    return code.co_filename == path and code in acc_codes

                the_filter = (lambda code: code.co_filename == path) if accepted is None else flt
                nested = mode == "nested-same-logger" and b % 2 == 1

                def run_twin():
                    for q in called:
                        if q not in ("late",):
                            eval(CALLS[q], {"M": twin})  # noqa: S307

                def run_calls():
                    if twin is not None and b % 2 == 0:
                        run_twin()  # the rejected copy runs first ...
                    _run_calls()
                    if twin is not None and b % 2 == 1:
                        run_twin()  # ... or last

                def _run_calls():
                    for q in called:
                        if q == "late" and b == 0:
                            del M.late
                            try:
                                holder[0](1)
                            finally:
                                M.late = holder[0]
                        else:
                            eval(CALLS[q], {"M": M})  # noqa: S307

                lg.block = b
                if mode == "trace-config-same-config":
                    state["filter"], state["k"], state["rate"] = the_filter, k, rate
                    with monkeytype.trace(cfg):
                        run_calls()
                elif nested:
                    # an enclosing block with another limit / filter / rate on the SAME logger; the inner block is the one judged
                    with trace_calls(lg, KS[(b + 3) % len(KS)] + 7, (lambda code: code.co_filename == path) if b % 4 == 1 else (lambda code: False), None):
                        with trace_calls(lg, k, the_filter, rate):
                            run_calls()
                else:
                    with trace_calls(lg, k, the_filter, rate):
                        run_calls()
                blocks.append((accepted, called, k, rate))
            lg.block = None
            for b, (accepted, called, k, rate) in enumerate(blocks):
                for r_ in (res17, res06, res02, res18):
                    r_.count("evaluations")
                    r_.count("session_blocks")
                got = [t for bb, t in lg.logged if bb == b and getattr(t.func, "__module__", None) == name]
                from_twin = sorted({t.func.__qualname__ for bb, t in lg.logged if bb == b and getattr(t.func, "__module__", None) == name + "_twin"})
                if twin is not None:
                    res17.count("session_blocks_with_a_rejected_code_equal_twin")
                gotq = sorted({t.func.__qualname__ for t in got})
                eff = {q for q in called if q in plain} | {x for q in called for x in ALSO_RUNS.get(q, ())}
                want = sorted({logged_as.get(x, x) for x in (eff if accepted is None else eff & accepted)})
                # the wrapper function itself is bound to other names (`hidden`, `K2.hm`): findable through a receiver or a caller's
                # local in some calls only - a trace is allowed, not due
                if WRAPPER in want:
                    want.remove(WRAPPER)
                if accepted is None or WRAPPER in accepted:
                    gotq = [q for q in gotq if q != WRAPPER]
                if b == 0 and "late" in want:
                    want.remove("late")  # not findable by name during block 0: a trace is allowed, not due
                    gotq = [q for q in gotq if q != "late"]
                wit = {"case": case, "mode": mode, "block": b, "accepted": None if accepted is None else sorted(accepted), "called": called, "k": k, "rate": rate}
                res17.shape(f"{mode}|{b}|{len(want)}|{accepted is None}|{rate}")
                res17.seen("session_modes", mode)
                if case.get("main_ns"):
                    res17.count("session_blocks_over_script_namespace")
                sfx = ":first-block" if b == 0 else ":later-block-of-a-session"
                if from_twin:
                    res17.violation("rejected-function-recorded:code-equal-twin-in-another-file", f"{mode}, block {b}: logged {from_twin} of the twin module, which the filter rejects", wit)
                if rate in (None, 1):
                    res18.count("session_blocks_with_sampling_off")
                    if b and any(bl[3] not in (None, 1) for bl in blocks[:b]):
                        res18.count("session_blocks_with_sampling_off_after_a_sampled_block")
                    if gotq != want:
                        extra, missing = sorted(set(gotq) - set(want)), sorted(set(want) - set(gotq))
                        if extra:
                            res17.violation("rejected-function-recorded" + sfx, f"{mode}, block {b}: logged {gotq}, expected {want} (filter accepts {wit['accepted']})", wit)
                        if missing:
                            res17.violation("accepted-function-not-recorded" + sfx, f"{mode}, block {b}: logged {gotq}, expected {want} (filter accepts {wit['accepted']})", wit)
                            res02.violation("resolvable-call-not-logged" + sfx, f"{mode}, block {b}: {missing} completed but no trace was logged (logged {gotq})", wit)
                            res18.violation("calls-not-all-traced-with-sampling-off" + sfx, f"{mode}, block {b} (rate {rate}): {missing} not traced", wit)
                    if "late" in want:
                        res02.count("late_bound_function_judgements")
                    if LAMBDA in want:
                        res17.count("lambda_in_caller_local_judgements")
                    if "hidden" in want or "K2.hm" in want:
                        res17.count("function_behind_plain_closure_decorator_judgements")
                    if COUNT in want:
                        res17.count("self_referential_nested_function_judgements")
                    if LEAF in want:
                        res17.count("closure_held_100_frames_up_judgements")
                    if "counted" in want or "cached_fn" in want:
                        res17.count("function_behind_a_non_function_wrapper_judgements")
                else:
                    res18.count("session_blocks_sampled")
                    extra = sorted(set(gotq) - set(want))
                    if extra:
                        res17.violation("rejected-function-recorded" + sfx, f"{mode}, block {b} (rate {rate}): logged {extra} outside {want}", wit)
                res17.count("accepted_functions", len(want))
                for t in got:
                    sizes = [s for ty in list((t.arg_types or {}).values()) + [t.return_type, t.yield_type] if ty is not None for s in td_sizes(ty)]
                    res06.count("session_traces_scanned")
                    res06.count("session_typeddict_nodes", len(sizes))
                    if k == 0 and sizes:
                        res06.violation("typeddict-in-trace-with-limit-zero" + (":later-block-of-a-session" if b else ""),
                                        f"{mode}, block {b} (limit 0): {t.func.__qualname__} logged with a TypedDict", wit)
                    elif sizes and max(sizes) > k:
                        res06.violation("typeddict-over-limit-in-trace" + (":later-block-of-a-session" if b else ""),
                                        f"{mode}, block {b} (limit {k}): {t.func.__qualname__} logged with a TypedDict of {max(sizes)} keys", wit)
                    elif sizes and min(sizes) == 0:
                        res06.violation("empty-typeddict-in-trace", f"{mode}, block {b}", wit)
            nflush = len(blocks) + (sum(1 for b in range(len(blocks)) if b % 2 == 1) if mode == "nested-same-logger" else 0)
            if lg.flushes != nflush:
                res17.violation("flush-count:session", f"{mode}: {lg.flushes} flushes for {nflush} block exits", {"case": case, "mode": mode})
        sys.modules.pop(modname, None)
        sys.modules.pop(modname + "_twin", None)
        os.remove(path)
    sys.path.remove(d)
    shutil.rmtree(d, ignore_errors=True)
    return {"C17": res17.out(), "C06": res06.out(), "C02": res02.out(), "C18": res18.out()}


def cases(ck, n):
    return [{"id": f"{ck.seed}_{i}", "seed": f"sessions:{ck.seed}:{i}", "modes": ["trace_calls-same-logger", "trace-config-same-config", "nested-same-logger"], "blocks": 6, "koff": i, "rates": i % 2 == 1, "main_ns": i % 4 == 3}
            for i in range(n)]


def run_into(ck, prop, n):
    cs = cases(ck, n)
    m = min(core.NPROC, len(cs))
    for r in core.pmap("vf.props.sessions:work", [{"cases": cs[i::m]} for i in range(m)], timeout=1200):
        if r is None or "harness_error" in r or "mt_exception" in r:
            ck.merge(r)
        else:
            ck.merge(r[prop])
