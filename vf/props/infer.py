"""Shared pass for C04 (admission + order independence), C05 (tightness), C06 (TypedDict limit) over
multisets of grammar values x max_typed_dict_size.  DESIGN 6 C04-C06."""
import itertools
import random
import sys

from vf import core
from vf.gen import values as gv
from vf.oracle import rt as RT
from vf.oracle.conform import member
from vf.oracle.witness import tight

KS_FULL = [0, 1, 2, 3, 10, 200]


def _anchor_probe():
    """Which shrink_types paths were taken is observed by wrapping the real helper functions."""
    import monkeytype.typing as mt

    hits = {"typed_dict_merge": 0, "all_equal": 0, "all_lists": 0, "mixed": 0, "oversize_fallback": 0, "empty": 0}
    orig_std = mt.shrink_typed_dict_types
    orig_shrink = mt.shrink_types

    def std(tds, k):
        hits["typed_dict_merge"] += 1
        r = orig_std(tds, k)
        if not mt.is_anonymous_typed_dict(r):
            hits["oversize_fallback"] += 1
        return r

    def shrink(types, k):
        types = tuple(types)
        if not types:
            hits["empty"] += 1
        elif all(mt.is_anonymous_typed_dict(t) for t in types):
            pass
        elif all(mt.types_equal(t, types[0]) for t in types[1:]):
            hits["all_equal"] += 1
        elif all(mt.is_list(t) for t in types):
            hits["all_lists"] += 1
        else:
            hits["mixed"] += 1
        return orig_shrink(types, k)

    mt.shrink_typed_dict_types = std
    mt.shrink_types = shrink
    return hits


def _probe(a):
    return a


def _named_classes_resolve(term):
    """The store knows classes by (module, qualified name): a type survives it only if those names lead back to the same class objects."""
    import importlib

    for node in RT.walk(term):
        if node[0] == "cls" and isinstance(node[1], type):
            c = node[1]
            try:
                obj = importlib.import_module(c.__module__)
                for part in c.__qualname__.split("."):
                    obj = getattr(obj, part)
            except Exception:
                return False
            if obj is not c:
                return False
    return True


def judge_case(res, exprs, k, rng, hits=None):
    """One multiset x one k through the real get_type/shrink_types and the three oracles.
    res: dict prop -> core.Res."""
    import monkeytype.typing as mt

    for r in res.values():
        r.count("evaluations")
    vals = [gv.ev(e) for e in exprs]
    wit = {"values": list(exprs), "k": k}
    try:
        types = [mt.get_type(v, k) for v in vals]
        merged = mt.shrink_types(types, k)
    except RecursionError as e:
        res["C04"].violation("inference-raises:RecursionError", f"{exprs} k={k}: {e!r}", wit)
        return
    except Exception as e:
        res["C04"].violation(f"inference-raises:{type(e).__name__}", f"{exprs} k={k}: {e!r}", wit)
        return
    term = RT.to_rt(merged)
    if RT.has_unknown(term):
        for r in res.values():
            r.count("unverifiable_unknown_term")
        res["C04"].violation("uninterpretable-type", f"{exprs} k={k}: {merged!r}", wit)
        # what sits inside a generic this reference does not interpret still counts against the limit
        for t in [term] + [RT.to_rt(x) for x in types]:
            for node in RT.td_nodes(t):
                n = len(node[1]) + len(node[2])
                if k == 0:
                    res["C06"].violation("typeddict-with-limit-zero", f"{exprs} k=0: {RT.show(t)}", wit)
                elif n > k:
                    res["C06"].violation("typeddict-over-limit", f"{exprs} k={k}: {n} keys in {RT.show(t)}", wit)
        return
    shp = RT.shape(term)
    # ---- C04 admission
    r4 = res["C04"]
    r4.shape(shp + f"|k{min(k, 11)}")
    for e, v in zip(exprs, vals):
        r4.count("membership_judgements")
        if not member(v, term):
            r4.violation("value-not-admitted", f"value {e} not a member of {RT.show(term)} (k={k}, values={exprs})", wit)
            break
    # per-value admission as well (get_type alone)
    for e, v, t in zip(exprs, vals, types):
        t1 = RT.to_rt(t)
        if not member(v, t1):
            r4.violation("value-not-admitted-by-get_type", f"value {e} not a member of get_type -> {RT.show(t1)} (k={k})", wit)
            break
    # order / multiplicity independence
    if len(types) > 1:
        perms = []
        idx = list(range(len(types)))
        for _ in range(3):
            rng.shuffle(idx)
            perms.append([types[i] for i in idx])
        perms.append(types + [types[rng.randrange(len(types))]])
        perms.append(list(reversed(types)) + types)
        for p in perms:
            r4.count("permutation_judgements")
            try:
                m2 = mt.shrink_types(p, k)
            except Exception as e:
                r4.violation(f"inference-raises:{type(e).__name__}", f"permuted {exprs} k={k}: {e!r}", wit)
                break
            t2 = RT.to_rt(m2)
            if t2 != term:
                r4.violation("order-dependent-merge", f"{exprs} k={k}: {RT.show(term)} vs {RT.show(t2)}", wit)
                break
    # the same through the stub builder's merge of whole traces (argument, return and yield position)
    t_store = None
    if len(types) > 1:
        from monkeytype.stubs import shrink_traced_types
        from monkeytype.tracing import CallTrace

        seen_terms = set()
        for p in [list(range(len(types))), list(reversed(range(len(types))))] + [rng.sample(range(len(types)), len(types))]:
            traces = [CallTrace(_probe, {"a": types[i]}, types[i], types[i]) for i in p]
            # calls that raised before returning / generators that yielded nothing leave those slots empty: an empty slot is not a type
            traces.insert(rng.randrange(len(traces) + 1), CallTrace(_probe, {"a": types[p[0]]}, None, None))
            traces.append(CallTrace(_probe, {"a": types[p[-1]]}, types[p[-1]], None))
            r4.count("trace_merge_judgements")
            try:
                at, rt_, yt = shrink_traced_types(traces, k)
            except Exception as e:
                r4.violation(f"trace-merge-raises:{type(e).__name__}", f"{exprs} k={k}: {e!r}", wit)
                break
            ts = {RT.to_rt(at["a"]), RT.to_rt(rt_), RT.to_rt(yt)}
            if len(ts) != 1:
                r4.violation("trace-merge-differs-by-position", f"{exprs} k={k}: " + " vs ".join(sorted(RT.show(x) for x in ts)), wit)
                t_store = next((x for x in sorted(ts, key=RT.show) if x != term and not RT.has_unknown(x)), None)  # walked for tightness below
                break
            seen_terms |= ts
        else:
            if len(seen_terms) != 1:
                r4.violation("order-dependent-trace-merge", f"{exprs} k={k}: " + " vs ".join(sorted(RT.show(x) for x in seen_terms)), wit)
            else:
                t3 = next(iter(seen_terms))
                if not RT.has_unknown(t3):
                    for e, v in zip(exprs, vals):
                        if not member(v, t3):
                            r4.violation("value-not-admitted-by-trace-merge", f"value {e} not a member of {RT.show(t3)} (k={k}, values={exprs})", wit)
                            break
                # ... and once more after the traces went through the store's row encoding and back (what `stub` merges)
                from monkeytype.encoding import CallTraceRow

                try:
                    if not _named_classes_resolve(t3):
                        raise LookupError("a class of this type is not what its module and qualified name lead to")
                    dec = [CallTraceRow.from_trace(tr).to_trace() for tr in traces]
                except Exception:
                    r4.count("store_round_trip_not_encodable")
                else:
                    r4.count("store_round_trip_merges")
                    try:
                        at, rt_, yt = shrink_traced_types(dec, k)
                        ts = {RT.to_rt(at["a"]), RT.to_rt(rt_), RT.to_rt(yt)}
                    except Exception as e:
                        r4.violation(f"trace-merge-raises:{type(e).__name__}:after-store-round-trip", f"{exprs} k={k}: {e!r}", wit)
                        ts = {t3}
                    if ts != {t3}:
                        t_store = sorted(ts - {t3}, key=RT.show)[0]
                        r4.violation("trace-merge-differs-after-store-round-trip", f"{exprs} k={k}: {RT.show(t3)} directly, {RT.show(t_store)} from decoded rows", wit)
    if len(RT.td_nodes(term)) or term[0] == "union":
        r4.count("nontrivial_terms")
    # ---- C05 tightness
    r5 = res["C05"]
    stats = {}
    bad = tight(term, vals, any_ok=False, stats=stats)
    if not bad and len(types) > 1:
        # the type merged from the same observations seen in the opposite order must be tight as well (an order-dependent merge can
        # be loose in one order only)
        try:
            rterm = RT.to_rt(mt.shrink_types(list(reversed(types)), k))
            if rterm != term and not RT.has_unknown(rterm):
                r5.count("reversed_order_terms_walked")
                bad = tight(rterm, vals, any_ok=False, stats={})
                if bad:
                    term = rterm
        except Exception:
            pass
    if not bad and t_store is not None and not RT.has_unknown(t_store):
        r5.count("store_round_trip_terms_walked")
        bad = tight(t_store, vals, any_ok=False, stats={})
        if bad:
            term = t_store
    r5.shape(shp + f"|k{min(k, 11)}")
    r5.count("union_nodes_walked", stats.get("union", 0))
    r5.count("td_nodes_walked", stats.get("td", 0))
    r5.count("any_nodes_walked", stats.get("any", 0))
    r5.count("class_nodes_walked", stats.get("cls", 0))
    if bad:
        path, why = bad
        kind = why.split(" (")[0]
        if "has no exact witness" in kind:
            kind = "class has no exact witness"
        r5.violation("not-tight:" + kind.replace(" ", "-"), f"{exprs} k={k}: {RT.show(term)} at {path}: {why}", wit)
    # ---- C06 TypedDict limit
    r6 = res["C06"]
    r6.shape(shp + f"|k{min(k, 11)}")
    for t in [term] + [RT.to_rt(x) for x in types]:
        for node in RT.td_nodes(t):
            n = len(node[1]) + len(node[2])
            r6.count("td_nodes_seen")
            if n == k:
                r6.count("td_at_limit")
            if k == 0:
                r6.violation("typeddict-with-limit-zero", f"{exprs} k=0: {RT.show(t)}", wit)
            elif n > k:
                r6.violation("typeddict-over-limit", f"{exprs} k={k}: {n} keys in {RT.show(t)}", wit)
            elif n == 0:
                r6.violation("empty-typeddict", f"{exprs} k={k}: {RT.show(t)}", wit)
    # TypedDict-worthy dicts (all-str keys, 1 <= size <= k) observed at top level
    for v in vals:
        if type(v) is dict and v and all(type(x) is str for x in v):
            if len(v) == k:
                r6.count("dict_at_limit")
            elif len(v) == k + 1:
                r6.count("dict_over_limit_by_one")
        if type(v) is dict and v and not all(isinstance(x, str) for x in v):
            r6.count("nonstr_key_dict")
    if sum(1 for v in vals if type(v) is dict) > 1:
        allk = set()
        for v in vals:
            if type(v) is dict:
                allk |= set(map(repr, v))
        if len(allk) > k > 0:
            r6.count("merged_keyset_over_limit")
    if len(r4.samples) < 2:
        s = {"values": list(exprs), "k": k, "inferred": RT.show(term)}
        for r in res.values():
            r.sample(s)


def work(payload):
    """payload: {'cases': [[exprs...], ...] | None, 'random': n, 'seed': str, 'ks': [...]}"""
    hits = _anchor_probe()
    res = {p: core.Res() for p in ("C04", "C05", "C06")}
    rng = random.Random(payload["seed"])
    ks = payload["ks"]
    sys.setrecursionlimit(3000)
    for exprs in payload.get("cases") or ():
        for k in ks:
            judge_case(res, exprs, k, rng)
    for _ in range(payload.get("random", 0)):
        exprs = gv.gen_multiset(rng)
        for k in ks:
            judge_case(res, exprs, k, rng)
    out = {}
    for p, r in res.items():
        for name, n in hits.items():
            r.count("path_" + name, n)
        out[p] = r.out()
    return out


def payloads(ck, ks):
    quick = ck.tier == "quick"
    cases = []
    if quick:
        cases += [list(m) for m in gv.multisets(2)]
        cases += [list(f) for f in gv.dict_families(2)]
        rs = ck.rng("fam3")
        fam3 = [list(f) for f in gv.dict_families(3) if len(f) == 3]
        cases += rs.sample(fam3, 600)
        nrandom = 5000
    else:
        cases += [list(m) for m in gv.multisets(2)]
        small = gv.BASIS[::2]
        cases += [list(m) for m in itertools.combinations_with_replacement(small, 3)]
        cases += [list(f) for f in gv.dict_families(3)]
        nrandom = 150000
    cases += [list(c) for c in gv.INFER_ONLY_CASES]
    # wrap dict families in a list as well (element position instead of top level)
    extra = []
    for c in cases:
        if all(e.startswith("{") for e in c) and len(c) > 1:
            extra.append(["[" + ", ".join(c) + "]"])
    cases += extra[:: (3 if quick else 1)]
    n = core.NPROC * (2 if quick else 8)
    chunks = [cases[i::n] for i in range(n)]
    return [
        {"cases": ch, "random": nrandom // n, "seed": f"{ck.prop[:1]}infer:{ck.seed}:{i}", "ks": ks}
        for i, ch in enumerate(chunks)
    ]


RULES = {
    "C04": "multisets of value-grammar expressions (exhaustive over the basis up to the tier's size, all dict families, random beyond) x k; "
    "a case is distinct by (structure of the merged type with class identities abstracted, k); every case runs admission of every "
    "value, admission by get_type alone, and 5 permutations/duplications compared by structural equality",
    "C05": "same space as C04; distinct by (structure of merged type, k); witness walk of every node of the merged type",
    "C06": "same space as C04 for the inference part; distinct by (structure of merged type, k); every TypedDict node in per-value "
    "and merged types is measured against k",
}


def run_prop(ck, prop, ks, extra=None):
    res = core.pmap("vf.props.infer:work", payloads(ck, ks), timeout=3000)
    for r in res:
        if r is None or "harness_error" in r or "mt_exception" in r:
            ck.merge(r)
        else:
            ck.merge(r[prop])
    return ck


def suite_as_workload(ck, prop):
    """Thorough tiers: the repository's own test-suite runs as one more workload under the post-condition shims
    (vf/pytest_plugin.py).  Test outcomes are ignored; only the journal counts."""
    import json
    import os
    import subprocess

    d = core.scratch("suite")
    jpath = os.path.join(d, "journal.json")
    env = core.child_env(VF_JOURNAL=jpath)
    try:
        subprocess.run([core.PY, "-m", "pytest", "-q", "-p", "no:cacheprovider", "-p", "vf.pytest_plugin", "-x", "--timeout=900", "tests"],
                       cwd=core.REPO, env=env, capture_output=True, text=True, timeout=1200)
    except subprocess.TimeoutExpired:
        ck.count("suite_workload_watchdog")
        return
    if not os.path.exists(jpath):
        ck.count("suite_workload_no_journal")
        return
    j = json.load(open(jpath))
    for k, v in j["counters"].items():
        ck.count("suite:" + k, v)
    for v in j["violations"]:
        if v["prop"] == prop:
            ck.violation("suite-workload:" + v["key"], v["summary"], {"workload": "repository test-suite", "summary": v["summary"]})
