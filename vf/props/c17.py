"""C17 - only code the filter admits, outside __main__, is ever recorded.  DESIGN 6 C17."""
import json
import os
import random
import shutil
import sqlite3
import subprocess
import sys
import sysconfig
import types

from vf import core

# ------------------------------------------------------------------------------------------------
# independent path oracle (os.path only; no pathlib, no cache)


def lib_roots():
    return sorted({os.path.realpath(sysconfig.get_path(n)) for n in ("stdlib", "purelib", "platlib") if sysconfig.get_path(n)})


def under(path, root):
    try:
        return os.path.commonpath([path, root]) == root
    except ValueError:
        return False


def oracle(filename, allow, roots, cwd=None):
    if not filename or filename[0] == "<":
        return False
    p = filename if os.path.isabs(filename) else os.path.join(cwd or os.getcwd(), filename)
    real = os.path.realpath(p)
    if allow is None:
        return not any(under(real, r) for r in roots)
    rel = real
    for r in roots:
        if under(real, r):
            rel = os.path.relpath(real, r)
            break
    parts = [x for x in rel.split(os.sep) if x]
    stem = os.path.splitext(os.path.basename(real))[0]
    return any(m == stem or m in parts for m in allow)


# ------------------------------------------------------------------------------------------------
# part 1: filter vs oracle, one interpreter per allow-list


def code_for(path, i):
    # distinct code per file: code objects that differ only in co_filename compare equal and the filter is lru_cached
    return compile(f"_vf_marker = {path!r}, {i}", path, "exec")


def work_filter(p):
    """payload: {'allow': None | [names], 'files': [...], 'synthetic': bool, 'twins': bool}"""
    res = core.Res()
    allow = p["allow"]
    if allow is None:
        os.environ.pop("MONKEYTYPE_TRACE_MODULES", None)
    else:
        os.environ["MONKEYTYPE_TRACE_MODULES"] = ",".join(allow)
    from monkeytype.config import default_code_filter

    roots = lib_roots()
    tag = "allow=" + (",".join(allow) if allow is not None else "none")

    def judge(code, what):
        res.count("evaluations")
        res.count("filter_judgements")
        exp = oracle(code.co_filename, allow, roots)
        try:
            got = default_code_filter(code)
        except Exception as e:
            res.violation(f"filter-raises:{type(e).__name__}", f"default_code_filter({code.co_filename!r}) raised {e!r} [{tag}]", {"file": code.co_filename, "allow": allow})
            return
        res.count("admitted" if got else "rejected")
        if bool(got) != exp:
            kind = "admits-rejected-location" if got else "rejects-admissible-location"
            res.violation(f"{kind}:{what}", f"default_code_filter says {got} for {code.co_filename!r}, path oracle says {exp} [{tag}]",
                          {"file": code.co_filename, "allow": allow, "what": what})

    base = p.get("base", 0)
    for i, f in enumerate(p.get("files", ())):
        root = next((n for n, r in (("stdlib", os.path.realpath(sysconfig.get_path("stdlib"))), ("site-packages", os.path.realpath(sysconfig.get_path("purelib"))))
                     if under(os.path.realpath(f), r)), "user")
        if i % 97 == 0:
            res.shape(f"{tag}|{root}|{os.path.dirname(f)}")
        res.count("files_" + root)
        judge(code_for(f, base + i), "library-file" if root != "user" else "user-file")
    if p.get("loaded"):
        import email.mime.text  # noqa: F401 - pull in more pure-python modules
        import json as _j  # noqa: F401
        import textwrap  # noqa: F401
        import unittest.mock  # noqa: F401

        seen = set()
        for m in list(sys.modules.values()):
            for v in list(getattr(m, "__dict__", {}).values()):
                fs = []
                if isinstance(v, types.FunctionType):
                    fs.append(v)
                elif isinstance(v, type):
                    fs += [x for x in vars(v).values() if isinstance(x, types.FunctionType)]
                for f in fs:
                    c = f.__code__
                    if id(c) in seen:
                        continue
                    seen.add(id(c))
                    if c.co_filename.startswith("<"):
                        res.count("loaded_synthetic")
                    res.count("loaded_functions")
                    judge(c, "loaded-function")
    if p.get("synthetic"):
        d = core.scratch("c17u")
        real = os.path.join(d, "realpkg")
        os.makedirs(os.path.join(real, "sub"))
        files = []
        for name in ("alpha.py", "sub/beta.py", "sub/__init__.py", "json.py", "requests.py"):
            fp = os.path.join(real, name)
            open(fp, "w").write("x = 1\n")
            files.append(fp)
        # symlinks: a user path that resolves into a library root and a library-looking path that resolves to user code
        lib_target = os.path.join(sysconfig.get_path("stdlib"), "textwrap.py")
        os.symlink(lib_target, os.path.join(d, "linked_textwrap.py"))
        os.symlink(real, os.path.join(d, "linkdir"))
        os.symlink(os.path.dirname(lib_target), os.path.join(d, "stdlib_link"))
        files += [os.path.join(d, "linked_textwrap.py"), os.path.join(d, "linkdir", "alpha.py"), os.path.join(d, "linkdir", "sub", "beta.py"),
                  os.path.join(d, "stdlib_link", "json", "decoder.py"), os.path.join(d, "does_not_exist.py"),
                  os.path.join(d, "realpkg", "..", "realpkg", "alpha.py")]
        # user directories that are siblings of a library root and merely share its name as a string prefix
        for r in roots:
            files += [r + "-local/x.py", r + "_apps/pkg/x.py", r + ".bak/x.py", r[:-1] + "/x.py", r + "2/json/decoder.py"]
            res.count("sibling_prefix_paths", 5)
        # directory components and stems that merely CONTAIN a listed name next to a dot, a dash or as a hidden directory
        for nm in (allow or ["json", "alpha"])[:3] + ["sub"]:
            files += [os.path.join(d, f"build.{nm}", "helper.py"), os.path.join(d, f".{nm}", "hidden.py"), os.path.join(d, f"{nm}-1.2", "mod.py"),
                      os.path.join(d, f"x.{nm}.y", "m.py"), os.path.join(d, "pkgdir", f"{nm}.cfg.py"), os.path.join(d, "pkgdir", f"my{nm}.py"),
                      os.path.join(d, f"{nm}", "inside.py"), os.path.join(d, "pkgdir", f"{nm}.py")]
            res.count("dotted_component_paths", 8)
        cwd = os.getcwd()
        os.chdir(real)
        try:
            rel = ["alpha.py", "sub/beta.py", "./sub/../alpha.py", "../linked_textwrap.py"]
            for i, f in enumerate(files + rel):
                res.count("synthetic_paths")
                res.seen("synthetic_kinds", "symlink" if "link" in f else ("relative" if not os.path.isabs(f) else "plain"))
                judge(code_for(f, 100000 + i), "user-path")
            for i, f in enumerate(["<string>", "<frozen importlib._bootstrap>", "<stdin>", "", "<vf-flight>", "<frozen zipimport>", "<generated>:pricing",
                                   "<template 'invoice.txt'>, line 3", "<rules>.py", "<stdin>#2", "<", "<ipython-input-3-abc>", "<doctest a.b[0]>"]):
                res.count("synthetic_names")
                judge(code_for(f, 200000 + i), "synthetic-name")
        finally:
            os.chdir(cwd)
        shutil.rmtree(d, ignore_errors=True)
    if p.get("twins"):
        # the same source both under a library root and in a user directory (a vendored copy), both orders
        d = core.scratch("c17t")
        src = "def helper(a):\n    return a\n"
        libfile = os.path.join(sysconfig.get_path("stdlib"), "textwrap.py")
        userfile = os.path.join(d, "vendored_textwrap.py")
        for order in (0, 1):
            body = src + f"\n_order = {order}\n"
            libmod = compile(body, libfile, "exec")
            usermod = compile(body, userfile, "exec")
            lc = next(c for c in libmod.co_consts if isinstance(c, types.CodeType))
            uc = next(c for c in usermod.co_consts if isinstance(c, types.CodeType))
            # helper's code differs between orders only through nothing at all: make them distinct per order
            lc = lc.replace(co_firstlineno=1 + order * 7)
            uc = uc.replace(co_firstlineno=1 + order * 7)
            pair = [(lc, "library"), (uc, "user")]
            if order:
                pair.reverse()
            for c, where in pair:
                res.count("twin_judgements")
                exp = oracle(c.co_filename, allow, roots)
                got = default_code_filter(c)
                if bool(got) != exp:
                    res.violation("filter-cache-conflates-code-equal-twins",
                                  f"identical function in {where} file {c.co_filename!r}: filter says {got}, oracle {exp} (order {order}: the twin seen first decides)",
                                  {"allow": allow, "order": order})
        shutil.rmtree(d, ignore_errors=True)
    res.sample({"allow": allow, "judged": res.counters.get("filter_judgements", 0)}, cap=1)
    return res.out()


def library_files():
    out = []
    seen = set()
    for r in lib_roots():
        for dp, dn, fn in os.walk(r):
            dn[:] = [x for x in dn if x != "__pycache__"]
            for f in fn:
                if f.endswith(".py"):
                    p = os.path.join(dp, f)
                    if p not in seen:
                        seen.add(p)
                        out.append(p)
    return sorted(out)


# ------------------------------------------------------------------------------------------------
# part 2: end to end through `monkeytype run`

CONFIG = '''
from monkeytype.config import DefaultConfig
NAMES = {names!r}
class C(DefaultConfig):
    def code_filter(self):
        return lambda code: code.co_name in NAMES and "vfuser" in code.co_filename
CONFIG = C()
'''


def work_e2e(p):
    res = core.Res()
    d = core.scratch("c17e")
    for spec in p["scripts"]:
        rng = random.Random(spec["seed"])
        sd = os.path.join(d, spec["name"])
        os.makedirs(sd)
        nmods = rng.choice([1, 2])
        mode = spec["mode"]
        mods = []
        called = set()
        all_funcs = []
        for mi in range(nmods):
            mname = f"vfuser{mi}_{spec['name']}"
            fnames = [f"uf{mi}_{j}" for j in range(rng.choice([2, 3, 4]))]
            body = ["import textwrap", "import json", "", "def twin(a):  # identical in every module (same line, same code)", "    return a", ""]
            for fn in fnames:
                body += [f"def {fn}(a):", "    return textwrap.dedent(' x') + json.dumps(a)", ""]
            body += ["class UK:", "    def um(self, a):", f"        return (a, {mname!r})", ""]
            open(os.path.join(sd, mname + ".py"), "w").write("\n".join(body))
            mods.append((mname, fnames))
            all_funcs += [(mname, fn) for fn in fnames] + [(mname, "UK.um"), (mname, "twin")]
        # modules whose names only importlib can load (a leading digit as in migrations, a hyphen, a numeric package directory)
        odd = []
        if spec.get("odd_names"):
            os.makedirs(os.path.join(sd, "2024"))
            for oi, rel in enumerate([f"0001_vfuser_{spec['name']}.py", f"vfuser-tools_{spec['name']}.py", os.path.join("2024", f"vfuser_stats_{spec['name']}.py")]):
                oname = rel[:-3].replace(os.sep, ".")
                open(os.path.join(sd, rel), "w").write(f"def odd_fn{oi}(a):\n    return a\n\n\nclass OK{oi}:\n    def om(self, a):\n        return a\n")
                odd.append((oname, oi))
                all_funcs += [(oname, f"odd_fn{oi}"), (oname, f"OK{oi}.om")]
        app = f"vfapp_{spec['name']}"
        os.makedirs(os.path.join(sd, app))
        open(os.path.join(sd, app, "__init__.py"), "w").write("")
        open(os.path.join(sd, app, "__main__.py"), "w").write("def parse(a):\n    return a\n\n\ndef entry(a):\n    return parse(a)\n\n\nif __name__ == '__main__':\n    entry(1)\n")
        script = [f"import {m}" for m, _ in mods] + [f"from {app}.__main__ import entry as app_entry"] + ["import textwrap", "", "def main_helper(a):", "    return a", "", "class MainK:", "    def mm(self, a):", "        return a", ""]
        for m, fns in mods:
            for fn in fns:
                if rng.random() < 0.75:
                    script.append(f"{m}.{fn}(1)")
                    called.add((m, fn))
            if rng.random() < 0.7:
                script.append(f"{m}.UK().um('s')")
                called.add((m, "UK.um"))
            if mode != "allow":  # (with the default filter's cache, an allow-list covering one twin only is the listed finding)
                script.append(f"{m}.twin({len(called)})")
                called.add((m, "twin"))
        if mode == "default":
            # a package's __main__.py imported under its qualified name is not the __main__ module
            script.append("app_entry(5)")
            called.add((f"{app}.__main__", "entry"))
            called.add((f"{app}.__main__", "parse"))
        if odd:
            script.append("import importlib")
            for oname, oi in odd:
                script += [f"_odd{oi} = importlib.import_module({oname!r})", f"_odd{oi}.odd_fn{oi}(1)", f"_odd{oi}.OK{oi}().om('s')"]
                called.add((oname, f"odd_fn{oi}"))
                called.add((oname, f"OK{oi}.om"))
            res.count("e2e_scripts_with_modules_only_importlib_can_name")
        script += ["main_helper(1)", "MainK().mm(2)", "textwrap.dedent(' y')", "import json; json.dumps({'a': 1})", ""]
        double = spec.get("double_import")
        if double:
            # the script's own file is also imported under its module name (an app that does `from app import ...` while being run as
            # `python app.py`): the imported copy's functions belong to module `script`, not to __main__
            script += ["import script as _self", "_self.main_helper(3)", "_self.MainK().mm(4)", ""]
            if mode == "default":  # (the custom filter and the allow-lists reject the script's file)
                called.add(("script", "main_helper"))
                called.add(("script", "MainK.mm"))
        open(os.path.join(sd, "script.py"), "w").write("\n".join(script))
        mode = spec["mode"]
        db = os.path.join(sd, "t.sqlite3")
        env = core.child_env(extra_path=[sd], MT_DB_PATH=db)
        args = ["-m", "monkeytype"]
        accepted = None
        if mode == "allow":
            keep = [m for m, _ in mods if rng.random() < 0.6] or [mods[0][0]]
            env["MONKEYTYPE_TRACE_MODULES"] = ",".join(keep)
            accepted = {(m, f) for (m, f) in called if m in keep}
        elif mode == "custom":
            names = sorted({f.split(".")[-1] for (_, f) in all_funcs if rng.random() < 0.5} | {"main_helper", "dedent"})
            open(os.path.join(sd, "vfcfg.py"), "w").write(CONFIG.format(names=set(names)))
            args += ["-c", "vfcfg:CONFIG"]
            accepted = {(m, f) for (m, f) in called if f.split(".")[-1] in names}
        else:
            accepted = set(called)
        script_arg = os.path.join(sd, "script.py") if double == "absolute" else "script.py"
        if double:
            res.count("e2e_double_import_" + double)
        r = subprocess.run([core.PY] + args + ["run", script_arg], env=env, cwd=sd, capture_output=True, text=True, timeout=120)
        res.count("evaluations")
        res.count("e2e_runs")
        res.count("e2e_" + mode)
        wit = {"spec": spec, "mode": mode}
        if r.returncode != 0:
            res.violation("run-fails", f"monkeytype run exited {r.returncode}: {r.stderr[-400:]}", wit)
            continue
        rows = set()
        if os.path.exists(db):
            conn = sqlite3.connect(db)
            rows = {(m, q) for m, q in conn.execute("SELECT module, qualname FROM monkeytype_call_traces")}
            conn.close()
        res.shape(f"{mode}|{nmods}|{len(called)}|{len(accepted)}")
        main_rows = {x for x in rows if x[0] == "__main__"}
        if main_rows:
            res.violation("main-function-recorded", f"rows for __main__ functions: {sorted(main_rows)}", wit)
        foreign = {x for x in rows if x[0] != "__main__" and x not in accepted}
        lib = {x for x in foreign if "vfuser" not in x[0] and not x[0].startswith("vfapp") and x[0] != "script"}
        if lib:
            res.violation("rejected-library-function-recorded", f"rows for library functions: {sorted(lib)[:5]} (mode {mode})", wit)
        rej = foreign - lib
        if rej:
            res.violation("rejected-function-recorded", f"rows for functions the filter rejects: {sorted(rej)[:5]} (mode {mode})", wit)
        missing = accepted - rows
        if missing:
            res.violation("admitted-function-not-recorded", f"no row for admitted, called functions: {sorted(missing)[:5]} (mode {mode})", wit)
        res.count("rows_checked", len(rows))
        res.count("accepted_functions", len(accepted))
        res.count("rejected_called_functions", len(called - accepted) + 3)
        res.sample({"mode": mode, "called": sorted(called)[:4], "rows": sorted(rows)[:4]}, cap=1)
        shutil.rmtree(sd, ignore_errors=True)
    shutil.rmtree(d, ignore_errors=True)
    return res.out()


def run(ck):
    quick = ck.tier == "quick"
    files = library_files()
    roots = lib_roots()
    n = core.NPROC
    per_root = {r: sum(1 for f in files if under(f, r)) for r in roots}
    for r, c in per_root.items():
        ck.counters["library_files_found:" + os.path.basename(r)] = c
    payloads = []
    chunks = [files[i::n] for i in range(n)]
    for i, ch in enumerate(chunks):
        payloads.append({"allow": None, "files": ch, "base": i * 100000, "loaded": i == 0, "synthetic": i == 1, "twins": i == 2})
    pool = ["json", "email", "encodings", "libcst", "pytest", "textwrap", "alpha", "sub", "realpkg", "mime", "site-packages", "tmp"]
    rs = ck.rng("allow")
    lists = [[x] for x in pool[:6]] + [rs.sample(pool, 2) for _ in range(4)] + [rs.sample(pool, 3) for _ in range(4)] + [[]]
    if not quick:
        import itertools

        lists = [list(c) for k in (0, 1, 2, 3) for c in itertools.combinations(pool, k)]
    for j, al in enumerate(lists):
        sub = files if not quick else rs.sample(files, 1200)
        if not quick and len(al) == 3:
            sub = rs.sample(files, 1500)
        payloads.append({"allow": al, "files": sub, "base": 5000000 + j * 100000, "synthetic": True, "loaded": j % 5 == 0, "twins": j == 0})
    # one interpreter per payload: the filter caches per code object and reads the allow-list inside
    for lo in range(0, len(payloads), 32):
        for r in core.pmap("vf.props.c17:work_filter", payloads[lo:lo + 32], nproc=32, timeout=3000):
            ck.merge(r)
    nscripts = 72 if quick else 600
    specs = [{"name": f"s{ck.seed}_{i}", "seed": f"C17:{ck.seed}:{i}", "mode": ["default", "allow", "custom"][i % 3],
              "double_import": [None, "relative", None, "absolute"][(i // 3) % 4], "odd_names": i % 2 == 1} for i in range(nscripts)]
    m = min(n, nscripts)
    for r in core.pmap("vf.props.c17:work_e2e", [{"scripts": specs[i::m]} for i in range(m)], timeout=3000):
        ck.merge(r)
    # (3) several tracing blocks in one interpreter sharing a logger / a Config object while the filter changes
    from vf.props import sessions

    sessions.run_into(ck, "C17", 32 if quick else 400)
    ck.need("session_blocks", 200)
    ck.need("session_blocks_over_script_namespace", 40)
    ck.need("lambda_in_caller_local_judgements", 20)
    ck.need("function_behind_plain_closure_decorator_judgements", 20)
    ck.need("self_referential_nested_function_judgements", 20)
    ck.need("session_blocks_with_a_rejected_code_equal_twin", 100)
    ck.need("closure_held_100_frames_up_judgements", 20)
    ck.need("files_stdlib", 1000, "fewer than 1000 files under the stdlib root")
    ck.need("files_site-packages", 1000, "fewer than 1000 files under site-packages")
    ck.need("loaded_functions", 1000)
    ck.need("synthetic_paths", 10)
    ck.need("synthetic_names", 5)
    ck.need("sibling_prefix_paths", 5)
    ck.need("dotted_component_paths", 50)
    ck.need("twin_judgements", 4)
    ck.need("e2e_default", 5)
    ck.need("e2e_scripts_with_modules_only_importlib_can_name", 5)
    ck.need("e2e_allow", 5)
    ck.need("e2e_custom", 5)
    ck.need("accepted_functions", 50)
    return ck.finish(
        rule="(1) one distinct code object per .py file under the real stdlib and site-packages roots (complete for the installed interpreter), "
        "all function code objects reachable from loaded modules, user files incl. symlinked/relative paths and synthetic names, each "
        "judged against an independent os.path oracle; allow-lists of 0..3 names each in their own interpreter; code-equal twins in both "
        "orders. (2) generated scripts run with `monkeytype run` under the default config, allow-lists and custom filters; rows read back. "
        "(3) sessions of 6 tracing blocks in one interpreter through trace_calls (one logger object) and monkeytype.trace (one Config object) with a "
        "different custom filter (or none) per block: logged functions == called & accepted per block. "
        "distinct = (allow-list, root, directory) / (mode, functions called, accepted)",
        assumptions=["the path oracle (os.path.realpath/commonpath over sysconfig roots) is the reference", "the filter reads only co_filename"],
        exhaustive=True,
        extra={"library_files_per_root": per_root, "note": "exhaustive refers to part (1) without allow-list: every .py file under the library roots"},
    )


def replay(ck, path):
    data = json.load(open(path))
    for c in data.get("cases", []):
        w = c.get("witness") or {}
        if "file" in w:
            ck.merge(work_filter({"allow": w.get("allow"), "files": [w["file"]]}))
        elif "spec" in w:
            ck.merge(work_e2e({"scripts": [w["spec"]]}))
    return ck.finish(rule="replay of " + path)
