"""C18 - sampling thins traces without distorting them.  DESIGN 6 C18.  Reuses the C02 harness."""
import json
import math
import random
import sys

from vf import core
from vf.gen import programs as gp
from vf.oracle import rt as RT
from vf.props import c02

RATES = [None, 1, 2, 3, 10, 100]


def subsequence(res, G, L, residue, live, prog, k, rate):
    """Every logged trace must describe, faithfully, a completion - in order."""
    bad = []
    labels = prog["labels"]
    noff = sum(1 for g in G if g.get("off_thread"))
    if noff:
        res.count("completions_on_another_thread", noff)
        G = [g for g in G if not g.get("off_thread")]
    corner = [g for g in G if g.get("reyield_none_at_throw_site")]
    if corner:
        # residual corner of the thrown-at-yield repair (listed finding): judge the rest without these frames
        codes = {id(g["code"]) for g in corner}
        G = [g for g in G if id(g["code"]) not in codes]
        L = [t for t in L if id(getattr(t.func, "__code__", None)) not in codes]
        bad.append(("caught-throw-reyields-none-at-same-yield", f"{corner[0]['qual']}: an exception thrown into the suspended generator was caught "
                    "there and it yielded None again from the same yield instruction; its trace may be logged early and incomplete"))
    i = 0
    for t in L:
        code = getattr(t.func, "__code__", None)
        found = None
        for jj in range(i, len(G)):
            g = G[jj]
            if c02.UNTYPABLE in g["args"].values():
                continue  # no trace can exist for a call whose argument types cannot be collected
            if g["code"] is code and not c02.compare(res, g, t, prog, k):
                found = jj
                break
        if found is not None:
            g = G[found]
            g["_traced"] = True
            i = found + 1
            res.count("sampled_traces_matched")
            continue
        # not faithful to any remaining completion: explain
        cands = [g for g in G if g["code"] is code]
        key = "sampled-trace-matches-no-call"
        text = f"logged trace {t!r:.200} describes no completed call faithfully"
        for g in cands:
            for ri, snap in enumerate(g["resumes"]):
                named = {n: snap[n] for n in snap}
                same_args = all(n in t.arg_types and RT.to_rt(t.arg_types[n]) == named[n] for n in named) and set(t.arg_types) >= set(named)
                tail = g["yields"][g["yields_before_resume"][ri]:]
                exp_y = RT.union(tail) if tail else None
                got_y = None if t.yield_type is None else RT.to_rt(t.yield_type)
                if same_args and exp_y == got_y:
                    key = "trace-started-at-generator-resumption"
                    text = (f"{g['qual']}: trace started at resumption #{ri + 1} (argument types are those of the locals then, "
                            f"yields before it are missing)")
                    break
            if key != "sampled-trace-matches-no-call":
                break
        bad.append((key, text))
    unexplained = [fr for fr in residue if fr not in set(live)]
    if unexplained:
        if any(g.get("how") == "unwind-at-suspended-yield" for g in G):
            bad.append(("generator-ended-by-exception-at-suspended-yield", f"{len(unexplained)} finished frame(s) still held in tracer.traces"))
        else:
            bad.append(("residue-in-tracer", f"{len(unexplained)} finished frame(s) still referenced by the tracer at quiescence (rate {rate})"))
    for g in G:
        if c02.UNTYPABLE in g["args"].values() or g["ret"] == c02.UNTYPABLE or c02.UNTYPABLE in g["yields"]:
            continue  # no trace can be due for this call whatever the draw was: it says nothing about the sampling fraction
        if labels.get(g["qual"], "may") == "must" and c02.flavor(g["code"]) == "plain":
            res.count(f"rate{rate}:plain_must_calls")
            if g.get("_traced"):
                res.count(f"rate{rate}:plain_must_traced")
            if prog.get("per_function"):
                res.count(f"perfn:{rate}:{g['qual']}:calls")
                if g.get("_traced"):
                    res.count(f"perfn:{rate}:{g['qual']}:traced")
        if c02.flavor(g["code"]) == "generator" and len(g["resumes"]) >= 2 and not g.get("_traced"):
            res.count("generators_resumed_twice_after_sampled_out_start")
    return bad


def work(p):
    res = core.Res()
    d = core.scratch("c18")
    sys.path.insert(0, d)
    for spec in p["programs"]:
        rng = random.Random(spec["seed"])
        if spec.get("literal"):
            prog = dict(spec["literal"], name=spec["name"])
        else:
            prog = gp.build(rng, spec["name"], nfuncs=spec.get("nfuncs", 12), opts={"ensure": ["genfunc", "genmethod"], "prestart": spec.get("prestart", False), "threads": spec.get("threads", False)},
                            live=spec.get("live", 4), abandon=spec.get("abandon", False))
            if spec.get("prestart"):
                res.count("prestart_programs")
        k = spec["k"]
        try:
            mod, path = c02.load_program(d, prog)
        except Exception as e:
            res.violation("harness:program-does-not-import", f"{e!r}", {"source": prog["source"]})
            continue
        for rate in spec["rates"]:
            for rs in spec["rng_seeds"]:
                res.count("evaluations")
                G, L, residue, results, flushes, live = c02.run_traced(mod, path, prog, k, sample_rate=rate, rng_seed=rs)
                res.count("completions", len(G))
                res.count("logged_traces", len(L))
                if rate in (None, 1):
                    bad = c02.align(res, G, L, residue, live, prog, k)
                    res.count("unsampled_runs")
                else:
                    bad = subsequence(res, G, L, residue, live, prog, k, rate)
                    res.count("sampled_runs")
                res.shape(f"{rate}|" + c02.shape_of(G))
                for key in sorted({b[0] for b in bad}):
                    texts = [b[1] for b in bad if b[0] == key]
                    res.violation(key, f"{prog['name']} k={k} rate={rate} rng={rs}: {texts[0]}" + (f" (+{len(texts) - 1} more)" if len(texts) > 1 else ""),
                                  {"spec": dict(spec, rates=[rate], rng_seeds=[rs]), "discrepancies": texts[:5]})
                if not bad and rate not in (None, 1):
                    res.sample({"program": prog["name"], "rate": rate, "rng_seed": rs, "completions": len(G), "logged": len(L)}, cap=1)
        c02.unload(prog)
    sys.path.remove(d)
    return res.out()


def work_short_blocks(p):
    """Many short tracing blocks in ONE process, each with a fresh tracer (one block per request, as a service would): the call at
    position i of the block must be traced in about 1/N of the blocks - independently per block, through trace_calls and monkeytype.trace."""
    import monkeytype
    from monkeytype.config import Config
    from monkeytype.tracing import CallTraceLogger, trace_calls

    res = core.Res()
    src = "\n\n".join(f"def h{i}(v):\n    return v" for i in range(8)) + "\n"
    fname = "/vfshort/" + p["tag"] + ".py"
    ns = {"__name__": "vfshort_" + p["tag"]}
    exec(compile(src, fname, "exec"), ns)  # noqa: S102
    fns = [ns[f"h{i}"] for i in range(8)]

    class L(CallTraceLogger):
        def __init__(self):
            self.names = []

        def log(self, t):
            self.names.append(t.func.__name__)

    class Cfg(Config):
        def __init__(self, lg, rate):
            self.lg, self.rate = lg, rate

        def trace_store(self):
            raise NotImplementedError

        def trace_logger(self):
            return self.lg

        def code_filter(self):
            return lambda code: code.co_filename == fname

        def sample_rate(self):
            return self.rate

    B = p["blocks"]
    for api in ("trace_calls", "trace-config"):
        for rate in p["rates"]:
            counts = [0] * 8
            patterns = set()
            for _ in range(B):
                lg = L()
                ctx = trace_calls(lg, 0, lambda code: code.co_filename == fname, rate) if api == "trace_calls" else monkeytype.trace(Cfg(lg, rate))
                with ctx:
                    for f in fns:
                        f(1)
                for nm in lg.names:
                    counts[int(nm[1:])] += 1
                patterns.add(tuple(lg.names))
            res.count("evaluations")
            res.count("short_block_series")
            res.count("short_blocks", B)
            pr = 1.0 / rate
            sigma = math.sqrt(B * pr * (1 - pr))
            wit = {"api": api, "rate": rate, "blocks": B, "counts": counts, "distinct_patterns": len(patterns)}
            res.shape(f"short|{api}|{rate}")
            off = [(i, c) for i, c in enumerate(counts) if abs(c - B * pr) > 6 * sigma + 1]
            if off:
                res.violation(f"sampling-decisions-repeat-across-blocks:rate{rate}", f"{api}, rate {rate}: call #{off[0][0]} of a block traced in {off[0][1]} of {B} blocks, "
                              f"expected {B * pr:.0f} +- {6 * sigma:.0f} (per-position counts {counts}, {len(patterns)} distinct block outcomes)", wit)
            elif len(patterns) < min(B, 2 ** 8) // 8:
                res.violation(f"sampling-decisions-repeat-across-blocks:rate{rate}", f"{api}, rate {rate}: only {len(patterns)} distinct outcomes over {B} blocks", wit)
    return res.out()


def run(ck):
    quick = ck.tier == "quick"
    nprog = 300 if quick else 3000
    nseeds = 3 if quick else 10
    sp = []
    for i in range(nprog):
        r = ck.rng("prog", i)
        sp.append({"name": f"vfprog18_{ck.seed}_{i}", "seed": f"C18:{ck.seed}:{i}", "k": r.choice([0, 3]), "nfuncs": r.choice([8, 12, 16]),
                   "live": r.choice([2, 4, 6]), "abandon": r.random() < 0.05, "prestart": i % 6 == 2, "threads": i % 6 == 4, "rates": RATES,
                   "rng_seeds": [r.randrange(10**6) for _ in range(nseeds)]})
    n = core.NPROC * (2 if quick else 16)
    pin = [dict(s, rates=s.get("rates", [2]), rng_seeds=s.get("rng_seeds", list(range(8)))) for s in c02.pinned("C18")]
    loop_src = ("import random\n\n\nclass Err(Exception):\n    pass\n\n\ndef item(i):\n    random.seed(1234)  # every work item starts from its own seed\n"
                "    return check(i)\n\n\ndef check(i):\n    return random.random() < 2\n\n\ndef loop_seeded(n):\n    for i in range(n):\n        item(i)\n\n\n"
                "def parse(i):\n    return i\n\n\ndef store(v):\n    return None\n\n\ndef a1(v):\n    return v\n\n\n"
                "def a2(v):\n    return v\n\n\ndef a3(v):\n    return v\n\n\ndef loop2(n):\n    for i in range(n):\n        store(parse(i))\n\n\n"
                "def loop5(n):\n    for i in range(n):\n        a3(a2(a1(store(parse(i)))))\n\n\n"
                # frames that pass the filter but belong to no findable function (generator expression, lambda, class body) right before calls
                "def scale(v):\n    return v\n\n\ndef after_lambda(v):\n    return v\n\n\ndef after_class(v):\n    return v\n\n\n"
                "def loop_unres(n):\n    for i in range(n):\n        t = sum(x for x in (i,))\n        scale(t)\n        (lambda q: q)(i)\n        after_lambda(i)\n"
                "        class Tmp:\n            pass\n        after_class(i)\n")
    must = {q: "must" for q in ("parse", "store", "a1", "a2", "a3", "loop2", "loop5", "item", "check", "loop_seeded", "scale", "after_lambda", "after_class", "loop_unres")}
    loops = [{"name": f"vfloop18_{ck.seed}_{j}", "seed": f"C18:loop:{j}", "k": 0, "rates": [2, 10], "rng_seeds": [ck.rng("loop", j).randrange(10**6)],
              "literal": {"source": loop_src, "labels": must, "per_function": True,
                          "entries": [["call", "loop2(1500)"], ["call", "loop5(1500)"], ["call", "loop_seeded(1500)"], ["call", "loop_unres(1500)"]]}} for j in range(2)]
    # long runs for the rates whose deviation is small in relative terms (1/100) or that lie above the sizes a byte / a small table can hold
    for j, (rate, reps) in enumerate([(100, 60000), (1000, 60000), (3, 6000), (7, 12000)] if quick else [(100, 200000), (1000, 200000), (3, 60000), (7, 60000), (10, 100000), (300, 200000)]):
        loops.append({"name": f"vfloopbig18_{ck.seed}_{j}", "seed": f"C18:bigloop:{j}", "k": 0, "rates": [rate], "rng_seeds": [ck.rng("bigloop", j).randrange(10**6)],
                      "literal": {"source": loop_src, "labels": must, "per_function": False, "entries": [["call", f"loop5({reps})"]]}})
    payloads = [{"programs": pin}] + [{"programs": [lp]} for lp in loops] + [{"programs": sp[i::n]} for i in range(n)]
    for r in core.pmap("vf.props.c18:work", payloads, timeout=3400):
        ck.merge(r)
    for r in core.pmap("vf.props.c18:work_short_blocks", [{"tag": f"{ck.seed}_{j}", "blocks": 400 if quick else 3000, "rates": [2, 3] if j % 2 == 0 else [5, 2]} for j in range(2 if quick else 8)], timeout=1200):
        ck.merge(r)
    ck.need("short_blocks", 1000)
    # traced fraction of plain calls against binomial bounds (6 sigma)
    fractions = {}
    allrates = sorted({int(k_[4:].split(":")[0]) for k_ in ck.counters if k_.startswith("rate") and k_.endswith(":plain_must_calls") and k_[4:].split(":")[0].isdigit()})
    for rate in allrates:
        nn = ck.counters.get(f"rate{rate}:plain_must_calls", 0)
        tt = ck.counters.get(f"rate{rate}:plain_must_traced", 0)
        if rate in (None, 1) or not nn:
            continue
        pr = 1.0 / rate
        sigma = math.sqrt(nn * pr * (1 - pr))
        fractions[str(rate)] = {"calls": nn, "traced": tt, "expected": round(nn * pr, 1), "sigma": round(sigma, 1)}
        ck.counters[f"rate{rate}:calls_for_fraction"] = nn
        ck.need(f"rate{rate}:calls_for_fraction", 20000, "too few plain calls for the binomial bound")
        if nn >= 20000 and abs(tt - nn * pr) > 6 * sigma + 1:
            ck.violation(f"sampling-fraction-off:rate{rate}", f"rate {rate}: {tt} of {nn} plain calls traced, expected {nn * pr:.0f} +- {6 * sigma:.0f}",
                         {"rate": rate, "calls": nn, "traced": tt})
    # the thinning must also be fair per function: a fixed call pattern in a loop must not lock onto the sampling
    perfn = {}
    for key, v in ck.counters.items():
        if key.startswith("perfn:") and key.endswith(":calls"):
            _, rate, qual, _ = key.split(":")
            nn, tt = v, ck.counters.get(f"perfn:{rate}:{qual}:traced", 0)
            pr = 1.0 / int(rate)
            sigma = math.sqrt(nn * pr * (1 - pr))
            perfn[f"{rate}:{qual}"] = {"calls": nn, "traced": tt}
            if nn >= 1000 and abs(tt - nn * pr) > 6 * sigma + 1:
                ck.violation(f"sampling-fraction-off-per-function:rate{rate}", f"rate {rate}: {qual} traced {tt} of {nn} calls, expected {nn * pr:.0f} +- {6 * sigma:.0f}",
                             {"rate": rate, "function": qual, "calls": nn, "traced": tt})
    from vf.props import sessions

    sessions.run_into(ck, "C18", 32 if quick else 300)
    ck.need("session_blocks_with_sampling_off_after_a_sampled_block", 20, "no block without sampling followed a sampled block on the same logger")
    ck.counters["per_function_fraction_judgements"] = len(perfn)
    ck.need("per_function_fraction_judgements", 6)
    ck.need("prestart_programs", 20)
    ck.need("completions_on_another_thread", 100, "no generator was finished by a worker thread")
    ck.need("sampled_runs", 500)
    ck.need("unsampled_runs", 200)
    ck.need("sampled_traces_matched", 5000)
    ck.need("generators_resumed_twice_after_sampled_out_start", 100, "no generator resumed at least twice after a sampled-out first call")
    return ck.finish(
        rule="generated programs as in C02 (always containing generator functions/methods whose bodies rebind their parameters between "
        "yields) x rates {None,1,2,3,10,100} x seeds of the global RNG the tracer draws from; rates None/1: exact alignment as in C02; "
        "rates > 1: every logged trace must match, in order, a flight-recorder completion faithfully (argument types at PY_START), no "
        "residue in tracer.traces, traced fraction of plain calls within 6 sigma of 1/N. distinct = (rate, program shape)",
        assumptions=["as C02", "the sampling RNG is the global `random` module seeded by the harness"],
        extra={"fractions": fractions},
    )


def replay(ck, path):
    data = json.load(open(path))
    sp = [c["witness"]["spec"] for c in data.get("cases", []) if c.get("witness") and "spec" in c["witness"]]
    ck.merge(work({"programs": sp}))
    return ck.finish(rule="replay of " + path)
