"""Shared harness for C15 (apply only adds annotations and imports) and C16 (--pep_563 confinement)."""
import ast
import importlib
import json
import os
import random
import shutil
import sys

from vf import core
from vf.gen import sources as gs
from vf.oracle import asterase as AE
from vf.oracle import rt as RT
from vf.oracle.stubeval import StubEval

LIBCST_KEYS = {"annotation-relies-on-function-local-import", "nested-class-annotation-imported-as-module",
               "typeddict-class-body-name-unresolved-after-apply", "second-application-under-confinement-touches-imports"}

RUNNER = "import json, sys; sys.path.insert(0, {d!r}); import {m} as M; print('VFOUT ' + json.dumps(M.workload(), default=repr))"


def run_workload(d, modname):
    r = core.run_py(["-c", RUNNER.format(d=d, m=modname)], timeout=120, cwd=d)
    if r.returncode != 0 or "VFOUT " not in (r.stdout or ""):
        tail = (r.stderr or "").strip().splitlines()[-1:] or ["?"]
        return None, tail[0][:300]
    return json.loads(r.stdout.rsplit("VFOUT ", 1)[1]), None


def module_file(d, modname):
    return os.path.join(d, *modname.split(".")) + ".py"


def write_tree(d, modname, source, helpers, reexport=False):
    os.makedirs(d, exist_ok=True)
    for rel, text in helpers.items():
        p = os.path.join(d, rel)
        os.makedirs(os.path.dirname(p), exist_ok=True)
        with open(p, "w") as f:
            f.write(text)
    mf = module_file(d, modname)
    os.makedirs(os.path.dirname(mf), exist_ok=True)
    if "." in modname:
        pkgdir = os.path.dirname(mf)
        open(os.path.join(pkgdir, "__init__.py"), "w").write("")
        # sibling modules of the package: `shapes` defines its own classes (the stub then names `<pkg>.shapes.Circle`, which is what the
        # source's `from .shapes import Circle` resolves to); `points` re-exports a class that belongs to a top-level helper module
        if reexport:
            open(os.path.join(pkgdir, "shapes.py"), "w").write("from shapes import Circle, Square, unit  # noqa: F401\n")
        else:
            open(os.path.join(pkgdir, "shapes.py"), "w").write(helpers["shapes.py"])
        open(os.path.join(pkgdir, "points.py"), "w").write("from geo.util import Point  # noqa: F401\n")
    with open(mf, "w") as f:
        f.write(source)


def trace_module(d, modname):
    """Import the module in this process and trace workload() for real -> (module, traces)."""
    from monkeytype.tracing import CallTraceLogger, trace_calls

    sys.path.insert(0, d)
    importlib.invalidate_caches()
    for n in ("shapes", "fastshapes", "geo", "geo.util", "colors", "generic_defs", modname, modname.split(".")[0], modname.split(".")[0] + ".shapes", modname.split(".")[0] + ".points"):
        sys.modules.pop(n, None)
    try:
        mod = importlib.import_module(modname)
        path = mod.__file__

        class L(CallTraceLogger):
            def __init__(self):
                self.traces = []

            def log(self, t):
                self.traces.append(t)

        lg = L()
        with trace_calls(lg, 0, lambda code: code.co_filename == path):
            mod.workload()
        lg3 = L()
        with trace_calls(lg3, 3, lambda code: code.co_filename == path):
            mod.workload()
    finally:
        sys.path.remove(d)
    return mod, {0: lg.traces, 3: lg3.traces}


def stub_for(traces, k, overwrite, modname):
    from monkeytype.stubs import ExistingAnnotationStrategy as S, build_module_stubs_from_traces
    from monkeytype.typing import DEFAULT_REWRITER

    traces = [t for t in traces if t.func.__module__ == modname and "<locals>" not in t.func.__qualname__]
    if not traces:
        raise RuntimeError("no traces for " + modname)
    stubs = build_module_stubs_from_traces(traces, k, existing_annotation_strategy=S.IGNORE if overwrite else S.REPLICATE, rewriter=DEFAULT_REWRITER)
    return stubs[modname].render()


def top_statements(text):
    tree = ast.parse(text)
    body = list(tree.body)
    if body and isinstance(body[0], ast.Expr) and isinstance(getattr(body[0], "value", None), ast.Constant) and isinstance(body[0].value.value, str):
        body = body[1:]
    return body


def placement(orig, result, info):
    """C16 placement queries -> list of (key, text)."""
    bad = []
    body = top_statements(result)
    if not body or not (isinstance(body[0], ast.ImportFrom) and body[0].module == "__future__" and any(a.name == "annotations" for a in body[0].names)):
        first = ast.unparse(body[0])[:80] if body else "<empty>"
        # an original __future__ import may legitimately precede / be merged
        futs = [n for n in body[:3] if isinstance(n, ast.ImportFrom) and n.module == "__future__" and any(a.name == "annotations" for a in n.names)]
        if not futs or not all(isinstance(n, ast.ImportFrom) and n.module == "__future__" for n in body[:body.index(futs[0])]):
            bad.append(("future-import-not-first", f"first statement after the docstring is {first!r}"))
    ot, nt = ast.parse(orig), ast.parse(result)
    oi = AE.imports_of(ot)
    ni = AE.imports_of(nt)
    import collections

    ocount = collections.Counter((m, n, a, lv) for m, n, a, lv, b, l in oi)
    seen = collections.Counter()
    for m, n, a, lv, b, l in ni:
        key = (m, n, a, lv)
        seen[key] += 1
        if key in ocount:
            continue  # the source already imports this name itself (a duplicate is not annotation-only)
        if m == "__future__" or (m == "typing") or (m is None and n == "typing"):
            continue  # typing names / the future import itself: not judged
        if m == "mypy_extensions" and n == "TypedDict":
            # needed at run time by generated classes at module level
            if "TYPE_CHECKING" in b and info.get("generated_classes"):
                bad.append(("runtime-import-confined:TypedDict", "TypedDict is imported under TYPE_CHECKING while generated classes subclass it at module level"))
            continue
        if "if TYPE_CHECKING" not in b and "if typing.TYPE_CHECKING" not in b:
            if m is None:
                # the stub only ever has from-imports: a plain `import x` was chosen by libcst (the name the stub imports is
                # bound to something else in the source, e.g. by an alternative import in a try/except)
                bad.append(("plain-module-import-added-by-libcst-not-confined", f"`import {n}` added for annotations is outside `if TYPE_CHECKING:` (block {b or 'module'})"))
            else:
                bad.append(("new-import-not-confined", f"newly introduced import {m}.{n} is outside `if TYPE_CHECKING:` (block {b or 'module'})"))
    # original imports stay where they were: same block, same relative order
    o_seq = [(m, n, a, lv, b) for m, n, a, lv, b, l in oi]
    n_seq = [(m, n, a, lv, b) for m, n, a, lv, b, l in ni]
    it = iter(n_seq)
    for item in o_seq:
        for cand in it:
            if cand == item:
                break
        else:
            m, n, a, lv, b = item
            stmt = (f"from {m} import {n}" if m else f"import {n}") + (f" as {a}" if a else "")
            where = "function-local" if b.startswith("def ") or "/def " in b else ("module-level" if not b else b)
            bad.append((f"source-import-removed-or-moved:{'aliased' if a else 'plain'}-{'from' if m else 'import'}-{where}", f"`{stmt}` of the source is no longer at its place ({b or 'module level'})"))
    return bad


def judge_apply(res, orig, stub, result, overwrite, confine, tmod, keyprefix=""):
    """-> list of (key, text) for one application."""
    bad = []
    diffs, info = AE.erased_diff(orig, result, allow_future=confine)
    for dtxt in diffs:
        if dtxt.startswith("result does not parse"):
            bad.append(("result-does-not-parse", dtxt))
        elif dtxt.startswith("imports of the original are gone"):
            bad.append(("source-import-deleted", dtxt))
        elif dtxt.startswith("comments lost"):
            bad.append(("comment-lost", dtxt))
        else:
            bad.append(("program-changed", dtxt))
    if any(k == "result-does-not-parse" for k, _ in bad):
        return bad, info
    oa, na = AE.annotations_of(orig), AE.annotations_of(result)
    se_stub = StubEval(stub, tmod)
    se_res = StubEval(result, tmod, type_checking=True)
    # confined imports are still names a type checker sees: make them available to the evaluator
    for node in ast.walk(ast.parse(result)):
        if isinstance(node, ast.If) and ast.unparse(node.test) in ("TYPE_CHECKING", "typing.TYPE_CHECKING"):
            for st in node.body:
                if isinstance(st, (ast.Import, ast.ImportFrom)):
                    try:
                        exec(compile(ast.Module([st], []), "<tc>", "exec"), se_res.ns)  # noqa: S102
                    except Exception:
                        pass
    for (q, pos), src in oa.items():
        if src is not None and not overwrite:
            res.count("existing_annotations_checked")
            if na.get((q, pos)) != src:
                bad.append(("existing-annotation-changed", f"{q}({pos}): {src!r} became {na.get((q, pos))!r} without overwrite"))
    for q, info_f in se_stub.funcs.items():
        params = [(n, node) for n, _k, node, _d in info_f.params()] + [("return", info_f.node.returns)]
        for pos, node in params:
            if node is None:
                continue
            had = oa.get((q, pos))
            if (q, pos) not in oa:
                continue
            if had is not None and not overwrite:
                continue
            res.count("stub_annotations_checked")
            got_src = na.get((q, pos))
            if got_src is None:
                bad.append(("stub-annotation-not-applied", f"{q}({pos}): stub has {ast.unparse(node)!r}, result has no annotation"))
                continue
            want = se_stub.ann_rt(node, f"stub {q}({pos})")
            before = len(se_res.events)
            got = se_res.ann_rt(ast.parse(got_src, mode="eval").body, f"result {q}({pos})")
            missing = [dt for kd, dt, _l in se_res.events[before:] if kd == "name-not-provided-by-stub"]
            if want is not None and got is None and missing and confine:
                # with confinement every name an annotation uses is imported at module level or under TYPE_CHECKING
                bad.append(("annotation-name-imported-nowhere", f"{q}({pos}): {got_src!r}: {missing[0][:120]}"))
                continue
            if want is None or got is None:
                res.count("unverifiable_annotation_pairs")
                continue
            if want != got and confine and "Unknown(unresolved)" in RT.show(got) and "Unknown(unresolved)" not in RT.show(want):
                # with confinement every name an annotation uses - also inside a generated TypedDict class body - is imported at module
                # level or under TYPE_CHECKING
                why = "; ".join(sorted({f"{lc}: {dt[:100]}" for kd, dt, lc in se_res.events if kd == "name-not-provided-in-typeddict-class-body"}))
                bad.append(("annotation-name-imported-nowhere", f"{q}({pos}): {got_src!r} = {RT.show(got)}: {why}"))
                continue
            if want != got:
                why = "; ".join(sorted({f"{kd}: {dt[:100]}" for kd, dt, _l in se_res.events[before:]}
                                       | {f"{kd}: {lc}: {dt[:100]}" for kd, dt, lc in se_res.events if kd == "name-not-provided-in-typeddict-class-body" and "Unknown(unresolved)" in RT.show(got)}))
                bad.append(("applied-annotation-differs", f"{q}({pos}): stub {ast.unparse(node)!r} = {RT.show(want)}, result {got_src!r} = {RT.show(got)}" + (f" [{why}]" if why else "")))
    return bad, info


def reclassify(bad, orig, overwrite, confine, stub=None):
    """Map discrepancies to the narrow mechanism they are explained by (libcst-rooted findings)."""
    import re

    ot = ast.parse(orig)
    imps = AE.imports_of(ot)
    local_only = set()
    for m, n, a, lv, b, l in imps:
        top = (a or n).split(".")[0] if m is None else (a or n)
        if b.startswith("def ") or "/def " in b:
            local_only.add(top)
    for m, n, a, lv, b, l in imps:
        top = (a or n).split(".")[0] if m is None else (a or n)
        if not (b.startswith("def ") or "/def " in b):
            local_only.discard(top)
    classes = {n.name for n in ast.walk(ot) if isinstance(n, ast.ClassDef)}
    nested_classes = {sub.name for n in ast.walk(ot) if isinstance(n, ast.ClassDef) for sub in n.body if isinstance(sub, ast.ClassDef)}
    plain_typing = any(m is None and n == "typing" for m, n, a, lv, b, l in imps)
    # modules the source imports with a plain `import M` (any scope): libcst then spells signature annotations `M.N` and adds no
    # `from M import N` - but the generated TypedDict class body is copied verbatim and still says `N`
    plain_mods = {n for m, n, a, lv, b, l in imps if m is None}
    stub_from = {}
    if stub:
        try:
            for node in ast.parse(stub).body:
                if isinstance(node, ast.ImportFrom) and node.module:
                    for al in node.names:
                        stub_from[al.asname or al.name] = node.module
        except SyntaxError:
            pass

    def body_copied_verbatim(names):
        return bool(names) and all(stub_from.get(n) in plain_mods for n in names)

    out = []
    for key, text in bad:
        mm = re.search(r"name '(\w+)' is not defined", text)
        if key.startswith("result-does-not-run:NameError") and mm and mm.group(1) in local_only:
            key = "annotation-relies-on-function-local-import"
        mm = re.search(r"name '(\w+)' is not defined", text)
        if key.startswith("result-does-not-run:NameError") and mm and plain_typing and mm.group(1) in (
                "List", "Dict", "Optional", "Union", "Set", "Tuple", "Any", "Type", "Callable", "DefaultDict", "Iterator"):
            key = "typeddict-class-body-name-unresolved-after-apply"
        mm = re.search(r"name '(\w+)' is not defined", text)
        if key == "annotation-name-imported-nowhere" and mm and mm.group(1) in local_only:
            key = "annotation-relies-on-function-local-import"
        allnames = set(re.findall(r"name '(\w+)' is not defined", text))
        if key == "annotation-name-imported-nowhere" and allnames and all(n in local_only or stub_from.get(n, "").split(".")[0] in local_only for n in allnames):
            key = "annotation-relies-on-function-local-import"  # the class body names N; the source has `import M` only inside functions
        if key == "annotation-name-imported-nowhere" and allnames and plain_typing and all(stub_from.get(n) == "typing" for n in allnames):
            key = "typeddict-class-body-name-unresolved-after-apply"
        mm = re.search(r"name '(\w+)' is not defined", text)
        if key == "annotation-name-imported-nowhere" and mm and mm.group(1) in nested_classes:
            key = "nested-class-annotation-imported-as-module"  # `from Canvas import Layer` sits under TYPE_CHECKING, where it resolves to nothing
        mm = re.search(r"No module named '(\w+)'", text)
        if key.startswith("result-does-not-run:ImportError") and mm and mm.group(1) in classes:
            key = "nested-class-annotation-imported-as-module"
        mm = re.search(r"newly introduced import (\w+)\.", text)
        if key == "new-import-not-confined" and mm and mm.group(1) in classes:
            key = "nested-class-annotation-imported-as-module"
        if key == "applied-annotation-differs" and "Unknown(unresolved)" in text and "TD{" in text and plain_typing:
            key = "typeddict-class-body-name-unresolved-after-apply"
        names = set(re.findall(r"name '(\w+)' is not defined", text))
        if key == "applied-annotation-differs" and "Unknown(unresolved)" in text and "TD{" in text and body_copied_verbatim(names):
            key = "typeddict-class-body-name-unresolved-after-apply"
        if key.startswith("result-does-not-run:NameError") and body_copied_verbatim(names) and "(TypedDict" in (stub or ""):
            key = "typeddict-class-body-name-unresolved-after-apply"
        if key == "second-application-changes-text" and confine and all(
                re.match(r"^[+-]\s*(from \S+ import .*|import .*|if TYPE_CHECKING:|pass|)$", x.strip()) for x in text.split(";")) and (
                    "pass" not in text or "if TYPE_CHECKING:" in text):  # (a block left empty says `pass`)
            key = "second-application-under-confinement-touches-imports"
        out.append((key, text))
    return out


def apply_real(stub, source, overwrite, confine):
    from monkeytype.cli import apply_stub_using_libcst

    return apply_stub_using_libcst(stub, source, overwrite, confine)


def work(p):
    """p: {'sources': [spec], 'prop': 'C15'|'C16'}"""
    res = core.Res()
    prop = p["prop"]
    d0 = core.scratch("apply")
    for spec in p["sources"]:
        rng = random.Random(spec["seed"])
        modname = spec["name"]
        if str(spec.get("style")).startswith("relative-import"):
            modname = spec["name"] + "_pkg.mod"
        style = next((s for s in gs.IMPORT_STYLES if s["name"] == spec.get("style")), None)
        if spec.get("literal_source"):
            src = {"source": spec["literal_source"], "helpers": dict(gs.HELPERS), "features": ["literal"], "style": "literal"}
        else:
            src = gs.build(rng, modname, {"style": style, "force": spec.get("force"), "forbid": spec.get("forbid")})
        d = os.path.join(d0, modname)
        reexport = spec.get("style") == "relative-import-of-reexport"
        write_tree(d, modname, src["source"], src["helpers"], reexport)
        base_out, err = run_workload(d, modname)
        if base_out is None:
            res.violation("harness:source-does-not-run", err, {"source": src["source"]})
            continue
        try:
            tmod, traces = trace_module(d, modname)
        except Exception as e:
            res.violation("harness:tracing-failed", repr(e), {"source": src["source"]})
            continue
        for f in src["features"]:
            res.seen("source_features", f)
        configs = spec["configs"]
        for (overwrite, k, confine) in configs:
            res.count("evaluations")
            res.count(f"confine_{'on' if confine else 'off'}")
            cfgname = f"overwrite={overwrite},k={k},confine={confine}"
            wit = {"spec": spec, "config": [overwrite, k, confine]}
            try:
                stub = stub_for(traces[k], k, overwrite, modname)
            except Exception as e:
                res.violation(f"stub-build-raises:{type(e).__name__}", repr(e)[:300], wit)
                continue
            try:
                result = apply_real(stub, src["source"], overwrite, confine)
            except Exception as e:
                msg = str(e)
                res.violation("apply-fails:" + type(e).__name__, f"{cfgname}: {msg[:300]}", dict(wit, stub=stub[:1500]))
                continue
            bad, info = judge_apply(res, src["source"], stub, result, overwrite, confine, tmod)
            if confine:
                bad += placement(src["source"], result, info)
            # behaviour: the result must import and compute the same
            rd = os.path.join(d0, modname + "_res")
            write_tree(rd, modname, result, src["helpers"], reexport)
            out, err = run_workload(rd, modname)
            res.count("results_executed")
            if out is None:
                kind = "NameError" if "NameError" in err else ("ImportError" if "Import" in err or "ModuleNotFound" in err else "other")
                bad.append((f"result-does-not-run:{kind}", f"{err}"))
            elif out != base_out:
                bad.append(("result-behaves-differently", f"workload() returned {str(out)[:120]} instead of {str(base_out)[:120]}"))
            shutil.rmtree(rd, ignore_errors=True)
            # idempotence
            try:
                again = apply_real(stub, result, overwrite, confine)
                res.count("second_applications")
                if again != result:
                    import difflib

                    dl = [ln for ln in difflib.unified_diff(result.splitlines(), again.splitlines(), lineterm="", n=0) if not ln.startswith(("---", "+++", "@@"))]
                    bad.append(("second-application-changes-text", f"{'; '.join(dl[:12])[:600]}"))
            except Exception as e:
                bad.append(("second-application-fails", str(e)[:200]))
            bad = reclassify(bad, src["source"], overwrite, confine, stub)
            res.shape(json.dumps([src["style"], sorted(src["features"])[:6], overwrite, k, confine]))
            c16_keys = ("future-import-not-first", "new-import-not-confined", "runtime-import-confined", "source-import-", "result-does-not-run",
                        "result-behaves-differently", "result-does-not-parse", "apply-fails", "nested-class-annotation-imported-as-module",
                        "annotation-relies-on-function-local-import", "plain-module-import-added-by-libcst-not-confined", "annotation-name-imported-nowhere")
            placement_only = ("future-import-not-first", "new-import-not-confined", "runtime-import-confined", "source-import-removed-or-moved",
                              "plain-module-import-added-by-libcst-not-confined")
            own = {"C15": lambda key: not key.startswith(placement_only), "C16": lambda key: key.startswith(c16_keys)}[prop]
            keys = {}
            for key, text in bad:
                keys.setdefault(key, []).append(text)
            for key, texts in keys.items():
                if not own(key):
                    continue
                full = f"{key}[confine]" if confine and prop == "C15" and key not in LIBCST_KEYS else key
                res.violation(full, f"{modname} {cfgname} ({src['style']}): {texts[0][:300]}" + (f" (+{len(texts) - 1} more)" if len(texts) > 1 else ""),
                              dict(wit, details=texts[:5], style=src["style"], result=result[:3000], stub=stub[:1500], lost=info.get("lost_imports")))
            if not bad:
                res.sample({"module": modname, "config": cfgname, "style": src["style"], "new_imports": info.get("new_imports")}, cap=1)
        # CLI apply (file rewritten in place) for the plain configuration
        if spec.get("cli"):
            judge_cli(res, d, modname, src, tmod, traces, spec, prop, base_out)
        for n in ("shapes", "fastshapes", "geo", "geo.util", "colors", "typing_defs", "generic_defs", modname):
            sys.modules.pop(n, None)
        shutil.rmtree(d, ignore_errors=True)
    shutil.rmtree(d0, ignore_errors=True)
    return res.out()


def judge_cli(res, d, modname, src, tmod, traces, spec, prop="C15", base_out=None):
    """`monkeytype run` + `monkeytype apply` in a child interpreter: file rewritten in place == library result."""
    db = os.path.join(d, "t.sqlite3")
    drv = os.path.join(d, "drv.py")
    open(drv, "w").write(f"import {modname}\n{modname}.workload()\n")
    env = core.child_env(extra_path=[d], MT_DB_PATH=db)
    confine = bool(spec.get("cli_confine"))
    r1 = core.run_py(["-m", "monkeytype", "run", drv], env=env, cwd=d, timeout=180)
    r2 = core.run_py(["-m", "monkeytype", "apply", modname] + (["--pep_563"] if confine else []), env=env, cwd=d, timeout=180)
    res.count("cli_applies")
    wit = {"spec": spec, "cli": True}
    if r1.returncode != 0 or r2.returncode != 0:
        res.violation("cli-apply-fails", f"run rc={r1.returncode} apply rc={r2.returncode}: {(r2.stderr or r1.stderr)[-300:]}", wit)
        return
    after = open(module_file(d, modname)).read()
    if after.rstrip("\n") != r2.stdout.rstrip("\n"):
        res.violation("cli-apply-file-differs-from-stdout", "the rewritten file and the printed source differ", wit)
    diffs, info = AE.erased_diff(src["source"], after, allow_future=confine)
    keys = {}
    for dtxt in diffs:
        key = "source-import-deleted" if dtxt.startswith("imports of the original") else ("comment-lost" if dtxt.startswith("comments") else "program-changed")
        keys.setdefault(key + "[cli]" + ("[confine]" if confine else ""), []).append(dtxt)
    na = AE.annotations_of(after)
    oa = AE.annotations_of(src["source"])
    for pos, text in oa.items():
        if text is not None and not confine:
            res.count("cli_existing_annotations_checked")
            if na.get(pos) != text:
                keys.setdefault("existing-annotation-changed[cli]", []).append(f"{pos[0]}({pos[1]}): {text!r} became {na.get(pos)!r} although overwriting was not requested")
    if not any(v for v in na.values()):
        keys.setdefault("cli-apply-added-no-annotation", []).append("no annotation at all in the rewritten file")
    # the rewritten file must still import and compute the same; with --pep_563 the placement rules hold for it as for the library route
    more = []
    if confine and prop == "C16" and not any(k.startswith("program-changed") for k in keys):
        more += placement(src["source"], after, info)
        res.count("cli_placement_judgements")
    if base_out is not None:
        for n in list(sys.modules):
            if n == modname or n.startswith(modname + "."):
                pass  # run_workload uses a fresh interpreter
        out, err = run_workload(d, modname)
        res.count("cli_results_executed")
        if out is None:
            kind = "NameError" if "NameError" in err else ("ImportError" if "Import" in err or "ModuleNotFound" in err else "other")
            more.append((f"result-does-not-run:{kind}", f"{err}"))
        elif out != base_out:
            more.append(("result-behaves-differently", f"workload() returned {str(out)[:120]} instead of {str(base_out)[:120]}"))
    for key, text in reclassify(more, src["source"], False, confine, None):
        keys.setdefault(key, []).append(text)
    for key, texts in keys.items():
        res.violation(key, f"{modname} (cli apply{' --pep_563' if confine else ''}, {src['style']}): {texts[0][:300]}", dict(wit, result=after[:2000]))
    open(module_file(d, modname), "w").write(src["source"])
    # `apply --ignore-existing-annotations`: every traced position receives the traced type whatever the source says
    loose = [pos for pos, text in oa.items() if text == "object"]
    if (loose or spec.get("cli_ignore")) and not confine:
        r3 = core.run_py(["-m", "monkeytype", "apply", modname, "--ignore-existing-annotations"], env=env, cwd=d, timeout=180)
        res.count("cli_applies_ignore")
        if r3.returncode != 0:
            res.violation("cli-apply-fails", f"apply --ignore-existing-annotations rc={r3.returncode}: {r3.stderr[-300:]}", wit)
        else:
            text3 = open(module_file(d, modname)).read()
            if text3.rstrip("\n") != r3.stdout.rstrip("\n"):
                res.violation("cli-apply-file-differs-from-stdout", "apply --ignore-existing-annotations: the rewritten file and the printed source differ", wit)
            try:
                na3 = AE.annotations_of(text3)
            except SyntaxError as e:
                res.violation("cli-apply-result-does-not-parse", f"apply --ignore-existing-annotations left a file that does not parse: {e}", wit)
                na3 = {}
            if len(text3) < len(src["source"]):
                res.count("cli_results_shorter_than_source")
            kept = [pos for pos in loose if na3.get(pos) == "object"]
            if kept:
                res.violation("overwrite-requested-but-existing-annotation-kept[cli]", f"{modname}: apply --ignore-existing-annotations left {kept[0][0]}({kept[0][1]}): object", wit)
        open(module_file(d, modname), "w").write(src["source"])
