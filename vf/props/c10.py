"""C10 - stale or undecodable stored traces are skipped, never fatal.  DESIGN 6 C10."""
import importlib
import itertools
import json
import os
import random
import shutil
import sqlite3
import sys

from vf import core

VERSION_A = '''from vfstalelib_{id} import LibCls
from vfstalelib_{id}_v2 import LibCls2
from vfstalepkg_{id}.sub import SubCls
from vfstalepkg_{id}.sub_v2 import SubCls2
from vfstalepkg_{id}.mid.deep import DeepCls


class Arg1:
    pass


class Ret1:
    pass


class Yld1:
    pass


class Rebound:
    pass


class Refunc:
    pass


class Relist:
    pass


class Reinst:
    pass


class Outer:
    class Inner:
        pass


def keep1(a, b=None):
    return a


def keep2(x):
    yield x


class K:
    def keepm(self, a):
        return a

    def to_prop(self):
        return 1

    @classmethod
    def keepc(cls, a):
        return a


def gone(a):
    return a


def to_int(a):
    return a


def to_class(a):
    return a


def to_local(a):
    return a


def uses_arg1(a):
    return 1


def uses_ret1():
    return Ret1()


def uses_yld1():
    yield Yld1()


def uses_rebound(a):
    return 1


def uses_refunc(a):
    return 1


def uses_relist(a):
    return 1


def uses_reinst(a):
    return 1


def uses_lib(a):
    return 1


def uses_sub(a):
    return 1


def uses_lib2(a):
    return 1


def uses_sub2(a):
    return 1


def uses_inner(a):
    return 1


def uses_deep(a):
    return 1


def mixed(a):
    return a


class OldCls:
    pass


def uses_oldparam(a, old=None):
    return a


class Basket:
    def __init__(self, n):
        self.n = n

    def total(self):
        return self.n


class Tags(list):
    def append(self, x):
        list.append(self, x)

    def first(self):
        return self[0]


def renamed(a, b):
    return a
'''

# mutation kind -> (how version B differs, qualname of the function whose rows become stale)
MUTATIONS = {
    "function-removed": ("gone", lambda s: cut_def(s, "gone")),
    "function-now-int": ("to_int", lambda s: cut_def(s, "to_int") + "\nto_int = 3\n"),
    "function-now-class": ("to_class", lambda s: cut_def(s, "to_class") + "\n\nclass to_class:\n    pass\n"),
    "function-now-local": ("to_local", lambda s: cut_def(s, "to_local") + "\n\ndef outer_scope():\n    def to_local(a):\n        return a\n    return to_local\n"),
    "method-now-settable-property": ("K.to_prop", lambda s: s.replace("    def to_prop(self):\n        return 1\n",
                                                                     "    @property\n    def to_prop(self):\n        return 1\n\n    @to_prop.setter\n    def to_prop(self, v):\n        pass\n")),
    "arg-class-removed": ("uses_arg1", lambda s: s.replace("class Arg1:\n    pass\n", "")),
    "return-class-removed": ("uses_ret1", lambda s: s.replace("class Ret1:\n    pass\n", "").replace("    return Ret1()", "    return 1")),
    "yield-class-removed": ("uses_yld1", lambda s: s.replace("class Yld1:\n    pass\n", "").replace("    yield Yld1()", "    yield 1")),
    "class-name-now-non-type": ("uses_rebound", lambda s: s.replace("class Rebound:\n    pass\n", "Rebound = 5\n")),
    "class-name-now-function": ("uses_refunc", lambda s: s.replace("class Refunc:\n    pass\n", "def Refunc():\n    return 1\n")),
    # the name is now bound to objects that cannot even be hashed (a registry list / dict, an instance of a class defining __eq__ only)
    "class-name-now-unhashable-container": ("uses_relist", lambda s: s.replace("class Relist:\n    pass\n", "Relist = []\n")),
    "class-name-now-unhashable-instance": ("uses_reinst", lambda s: s.replace("class Reinst:\n    pass\n", "class _Eq:\n    def __eq__(self, other):\n        return True\n\n\nReinst = _Eq()\n")),
    "module-removed": ("uses_lib", lambda s: s.replace("from vfstalelib_{id} import LibCls\n", "")),
    "submodule-removed": ("uses_sub", lambda s: s.replace("from vfstalepkg_{id}.sub import SubCls\n", "")),
    "intermediate-package-removed": ("uses_deep", lambda s: s.replace("from vfstalepkg_{id}.mid.deep import DeepCls\n", "")),
    # two stale kinds in one row: the parameter is gone from the signature and so is the class traced for it
    "param-and-its-class-removed": ("uses_oldparam", lambda s: s.replace("class OldCls:\n    pass\n", "").replace("def uses_oldparam(a, old=None):", "def uses_oldparam(a):")),
    # the method is gone from the class, but a base class still supplies the name through a C implementation
    "dunder-method-removed": ("Basket.__init__", lambda s: s.replace("    def __init__(self, n):\n        self.n = n\n\n", "    n = 0\n\n")),
    "override-of-builtin-method-removed": ("Tags.append", lambda s: s.replace("    def append(self, x):\n        list.append(self, x)\n\n", "")),
    "nested-class-removed": ("uses_inner", lambda s: s.replace("    class Inner:\n        pass\n", "    pass\n")),
}
# uses_lib2 / uses_sub2 mention classes of live modules whose names merely start with the name of a removed module
VALID = ["keep1", "keep2", "K.keepm", "K.keepc", "renamed", "mixed", "Basket.total", "Tags.first", "uses_lib2", "uses_sub2"]


def cut_def(src, name):
    lines = src.split("\n")
    out = []
    skip = False
    for ln in lines:
        if ln.startswith(f"def {name}("):
            skip = True
            continue
        if skip and (ln.startswith("    ") or ln == ""):
            continue
        skip = False
        out.append(ln)
    return "\n".join(out)


def make_rows(mod, id_):
    """CallTraceRows for version A (imported in this process)."""
    from monkeytype.encoding import CallTraceRow
    from monkeytype.tracing import CallTrace
    from typing import List, Optional

    lib = importlib.import_module(f"vfstalelib_{id_}")
    sub = importlib.import_module(f"vfstalepkg_{id_}.sub")
    deep = importlib.import_module(f"vfstalepkg_{id_}.mid.deep")
    lib2 = importlib.import_module(f"vfstalelib_{id_}_v2")
    sub2 = importlib.import_module(f"vfstalepkg_{id_}.sub_v2")
    NoneType = type(None)
    T = {
        "keep1": [CallTrace(mod.keep1, {"a": int, "b": NoneType}, int), CallTrace(mod.keep1, {"a": str, "b": int}, str), CallTrace(mod.keep1, {"a": List[int], "b": NoneType}, List[int])],
        "keep2": [CallTrace(mod.keep2, {"x": int}, NoneType, int), CallTrace(mod.keep2, {"x": str}, NoneType, str)],
        "K.keepm": [CallTrace(mod.K.keepm, {"self": mod.K, "a": int}, int), CallTrace(mod.K.keepm, {"self": mod.K, "a": Optional[str]}, Optional[str])],
        "K.keepc": [CallTrace(mod.K.keepc.__func__, {"a": int}, int)],
        "renamed": [CallTrace(mod.renamed, {"a": int, "b": str}, int)],
        "gone": [CallTrace(mod.gone, {"a": int}, int), CallTrace(mod.gone, {"a": str}, str)],
        "to_int": [CallTrace(mod.to_int, {"a": int}, int)],
        "to_class": [CallTrace(mod.to_class, {"a": int}, int)],
        "to_local": [CallTrace(mod.to_local, {"a": int}, int)],
        "K.to_prop": [CallTrace(mod.K.to_prop, {"self": mod.K}, int)],
        "uses_arg1": [CallTrace(mod.uses_arg1, {"a": mod.Arg1}, int), CallTrace(mod.uses_arg1, {"a": List[mod.Arg1]}, int)],
        "uses_ret1": [CallTrace(mod.uses_ret1, {}, mod.Ret1)],
        "uses_yld1": [CallTrace(mod.uses_yld1, {}, NoneType, mod.Yld1)],
        "uses_rebound": [CallTrace(mod.uses_rebound, {"a": mod.Rebound}, int), CallTrace(mod.uses_rebound, {"a": List[mod.Rebound]}, int),
                         CallTrace(mod.uses_rebound, {"a": Optional[mod.Rebound]}, mod.Rebound)],
        "uses_refunc": [CallTrace(mod.uses_refunc, {"a": List[mod.Refunc]}, int), CallTrace(mod.uses_refunc, {"a": int}, Optional[mod.Refunc])],
        "uses_relist": [CallTrace(mod.uses_relist, {"a": mod.Relist}, int), CallTrace(mod.uses_relist, {"a": List[mod.Relist]}, Optional[mod.Relist])],
        "uses_reinst": [CallTrace(mod.uses_reinst, {"a": Optional[mod.Reinst]}, int), CallTrace(mod.uses_reinst, {"a": int}, mod.Reinst)],
        "uses_lib": [CallTrace(mod.uses_lib, {"a": lib.LibCls}, int)],
        "uses_sub": [CallTrace(mod.uses_sub, {"a": Optional[sub.SubCls]}, int)],
        "uses_lib2": [CallTrace(mod.uses_lib2, {"a": lib2.LibCls2}, int), CallTrace(mod.uses_lib2, {"a": List[lib2.LibCls2]}, int)],
        "uses_sub2": [CallTrace(mod.uses_sub2, {"a": sub2.SubCls2}, int)],
        "uses_inner": [CallTrace(mod.uses_inner, {"a": mod.Outer.Inner}, int)],
        "uses_deep": [CallTrace(mod.uses_deep, {"a": deep.DeepCls}, int), CallTrace(mod.uses_deep, {"a": List[deep.DeepCls]}, int)],
        "uses_oldparam": [CallTrace(mod.uses_oldparam, {"a": int, "old": mod.OldCls}, int), CallTrace(mod.uses_oldparam, {"a": str, "old": List[mod.OldCls]}, str)],
        "Basket.__init__": [CallTrace(mod.Basket.__init__, {"self": mod.Basket, "n": int}, NoneType)],
        "Tags.append": [CallTrace(mod.Tags.append, {"self": mod.Tags, "x": int}, NoneType), CallTrace(mod.Tags.append, {"self": mod.Tags, "x": str}, NoneType)],
        "Basket.total": [CallTrace(mod.Basket.total, {"self": mod.Basket}, int)],
        "Tags.first": [CallTrace(mod.Tags.first, {"self": mod.Tags}, int)],
        # one function with decodable rows and rows that are stale only through a class they mention
        "mixed": [CallTrace(mod.mixed, {"a": int}, int), CallTrace(mod.mixed, {"a": str}, str)],
        "mixed:stale-if:arg-class-removed": [CallTrace(mod.mixed, {"a": mod.Arg1}, mod.Arg1)],
        "mixed:stale-if:return-class-removed": [CallTrace(mod.mixed, {"a": int}, mod.Ret1)],
    }
    out = {q: [CallTraceRow.from_trace(t) for t in ts] for q, ts in T.items()}
    from monkeytype.encoding import arg_types_to_json

    def with_args(row, args):
        return CallTraceRow(row.module, row.qualname, arg_types_to_json(args), row.return_type, row.yield_type)

    # decodable rows of one function that disagree on its parameter names: recorded before a parameter was added / under the
    # names the function has in version B (rows of `renamed` recorded after the edit)
    out["keep1:other-names"] = [with_args(out["keep1"][0], {"a": int}), with_args(out["keep1"][1], {"a": str, "b": int, "extra": float})]
    out["renamed:other-names"] = [with_args(out["renamed"][0], {"c": int, "d": str}), with_args(out["renamed"][0], {"c": str})]
    out["K.keepm:other-names"] = [with_args(out["K.keepm"][0], {"self": mod.K, "a": int, "flag": bool})]
    # ... and whose type under the vanished name holds an anonymous TypedDict (matters once a TypedDict limit is configured)
    from monkeytype.typing import make_typed_dict

    td = make_typed_dict(required_fields={"x": int, "y": str})
    out["keep1:other-names"].append(with_args(out["keep1"][0], {"a": int, "options": td, "b": List[td]}))
    out["renamed:other-names"].append(with_args(out["renamed"][0], {"a": td, "c": int}))
    # rows of functions that were defined in a local scope when they were traced: never decodable, whatever the module looks like now
    out["<deep-target>"] = [CallTraceRow.from_trace(CallTrace(deep.deep_fn, {"a": int}, int)), CallTraceRow.from_trace(CallTrace(deep.deep_fn, {"a": str}, str))]
    out["<local-scope>"] = [CallTraceRow(mod.__name__, "keep1.<locals>.inner", out["keep1"][0].arg_types, out["keep1"][0].return_type, None),
                            CallTraceRow(mod.__name__, "K.keepm.<locals>.cb", out["keep1"][1].arg_types, None, None),
                            CallTraceRow(mod.__name__, "make.<locals>.Local.method", out["keep1"][0].arg_types, None, out["keep2"][0].yield_type)]
    return out


def write_db(path, rows):
    from monkeytype.db.sqlite import create_call_trace_table

    if os.path.exists(path):
        os.remove(path)
    conn = sqlite3.connect(path)
    create_call_trace_table(conn)
    with conn:
        for i, r in enumerate(rows):
            conn.execute("INSERT INTO monkeytype_call_traces VALUES (?, ?, ?, ?, ?, ?)",
                         (f"2024-01-0{1 + i % 3} 00:00:0{i % 10}", r.module, r.qualname, r.arg_types, r.return_type, r.yield_type))
    conn.close()


def normalise(text):
    """Python text with the members of every Union[...] sorted (member order is C14's subject, not C10's)."""
    import ast

    class N(ast.NodeTransformer):
        def visit_Subscript(self, node):
            self.generic_visit(node)
            if isinstance(node.value, ast.Name) and node.value.id == "Union" and isinstance(node.slice, ast.Tuple):
                node.slice.elts.sort(key=ast.unparse)
            return node

    try:
        return ast.unparse(N().visit(ast.parse(text)))
    except SyntaxError:
        return text


def run_cmd(sd, db, argv):
    env = core.child_env(extra_path=[sd], MT_DB_PATH=db)
    return core.run_py(["-m", "monkeytype"] + argv, env=env, cwd=sd, timeout=120)


def work(p):
    res = core.Res()
    d = core.scratch("c10")
    for case in p["cases"]:
        id_ = case["id"]
        sd = os.path.join(d, f"c{id_}")
        os.makedirs(os.path.join(sd, f"vfstalepkg_{id_}"))
        mname = f"vfstale_{id_}"
        src_a = VERSION_A.replace("{id}", str(id_))
        open(os.path.join(sd, mname + ".py"), "w").write(src_a)
        open(os.path.join(sd, f"vfstalelib_{id_}.py"), "w").write("class LibCls:\n    pass\n")
        # the enclosing packages bind classes of the same names as their submodules do (other classes: what a submodule's row names is
        # not what the package has)
        open(os.path.join(sd, f"vfstalepkg_{id_}", "__init__.py"), "w").write("class SubCls:\n    pass\n\n\nclass DeepCls:\n    pass\n")
        open(os.path.join(sd, f"vfstalepkg_{id_}", "sub.py"), "w").write("class SubCls:\n    pass\n")
        open(os.path.join(sd, f"vfstalelib_{id_}_v2.py"), "w").write("class LibCls2:\n    pass\n")
        open(os.path.join(sd, f"vfstalepkg_{id_}", "sub_v2.py"), "w").write("class SubCls2:\n    pass\n")
        os.makedirs(os.path.join(sd, f"vfstalepkg_{id_}", "mid"))
        open(os.path.join(sd, f"vfstalepkg_{id_}", "mid", "__init__.py"), "w").write("class DeepCls:\n    pass\n")
        open(os.path.join(sd, f"vfstalepkg_{id_}", "mid", "deep.py"), "w").write("class DeepCls:\n    pass\n\n\ndef deep_fn(a):\n    return a\n")
        sys.path.insert(0, sd)
        importlib.invalidate_caches()
        try:
            mod = importlib.import_module(mname)
            rows = make_rows(mod, id_)
        finally:
            sys.path.remove(sd)
            for n in [mname, f"vfstalelib_{id_}", f"vfstalepkg_{id_}", f"vfstalepkg_{id_}.sub", f"vfstalepkg_{id_}.mid", f"vfstalepkg_{id_}.mid.deep", f"vfstalelib_{id_}_v2", f"vfstalepkg_{id_}.sub_v2"]:
                sys.modules.pop(n, None)
        # version B
        src_b = VERSION_A
        for kind in case["kinds"]:
            src_b = MUTATIONS[kind][1](src_b)
        src_b = src_b.replace("{id}", str(id_))
        if "renamed" in case["valid"]:
            src_b = src_b.replace("def renamed(a, b):", "def renamed(c, d):").replace("def renamed(c, d):\n    return a", "def renamed(c, d):\n    return c")
        if "module-removed" in case["kinds"]:
            os.remove(os.path.join(sd, f"vfstalelib_{id_}.py"))
        if "submodule-removed" in case["kinds"]:
            os.remove(os.path.join(sd, f"vfstalepkg_{id_}", "sub.py"))
        if "intermediate-package-removed" in case["kinds"]:
            shutil.rmtree(os.path.join(sd, f"vfstalepkg_{id_}", "mid"))
        modfile = os.path.join(sd, mname + ".py")
        open(modfile, "w").write(src_b)
        removed_target = bool(case.get("target_removed"))
        rng = random.Random(case["seed"])
        seq = []
        for q in case["valid"]:
            seq += [(r, False, None) for r in rows[q]]
            if rng.random() < 0.6:
                extra = rows.get(q + ":other-names", [])
                seq += [(r, False, None) for r in extra]
                res.count("rows_disagreeing_on_parameter_names", len(extra))
        if rng.random() < 0.5:
            seq += [(r, True, "local-scope-qualname") for r in rows["<local-scope>"][:rng.randint(1, 3)]]
            res.count("cases_with_local_scope_rows")
            for kind in MUTATIONS:
                extra = rows.get(f"{q}:stale-if:{kind}")
                if extra:
                    seq += [(r, kind in case["kinds"], kind) for r in extra]
        for kind in case["kinds"]:
            seq += [(r, True, kind) for r in rows[MUTATIONS[kind][0]]]
        rng.shuffle(seq)
        if case.get("dup"):
            seq += rng.sample(seq, min(3, len(seq)))
        db1, db2 = os.path.join(sd, "all.sqlite3"), os.path.join(sd, "valid.sqlite3")
        write_db(db1, [r for r, _, _ in seq])
        write_db(db2, [r for r, st, _ in seq if not st])
        target = mname
        if case.get("target_removed") == "dotted":
            # the command is asked for a module inside a package, and the PARENT package is gone (the directory was deleted)
            target = f"vfstalepkg_{id_}.mid.deep"
            shutil.rmtree(os.path.join(sd, f"vfstalepkg_{id_}", "mid"), ignore_errors=True)
            seq = [(r, True, "target-parent-package-removed") for r in rows["<deep-target>"]]
            write_db(db1, [r for r, _, _ in seq])
            write_db(db2, [])
            res.count("target_parent_package_removed_cases")
        elif removed_target:
            # the traced module itself is gone: every one of its rows is stale
            seq = [(r, True, "target-module-removed") for r, _, _ in seq]
            write_db(db1, [r for r, _, _ in seq])
            write_db(db2, [])
            res.count("target_removed_cases")
        prefix = case.get("qual_prefix") if not removed_target else None
        if prefix:
            # the command is given `<module>:<qualname prefix>`: a prefix of stored qualified names, not necessarily a name the module (still) has
            target = f"{mname}:{prefix}"
            seq = [(r, st, kd) for r, st, kd in seq if r.qualname.startswith(prefix)]
            res.count("qualname_prefix_cases")
        nstale = len({(r.module, r.qualname, r.arg_types, r.return_type, r.yield_type) for r, st, _ in seq if st})
        nvalid = sum(1 for _, st, _ in seq if not st)
        for cmd in case["cmds"]:
            res.count("evaluations")
            res.count("commands_" + cmd.replace(" ", "_"))
            argv = {"stub": ["stub", target], "stub -v": ["-v", "stub", target], "apply": ["apply", target]}[cmd]
            if case.get("k"):
                argv = ["-c", f"vf.mon.cfg:K{case['k']}_DEFAULT"] + argv
                res.count("commands_with_typeddict_limit")
            def reset():
                if case.get("target_removed") == "dotted":
                    return
                if removed_target:
                    if os.path.exists(modfile):
                        os.remove(modfile)
                else:
                    open(modfile, "w").write(src_b)

            def read_back():
                return open(modfile).read() if os.path.exists(modfile) else ""

            reset()
            r1 = run_cmd(sd, db1, argv)
            after1 = read_back()
            reset()
            r2 = run_cmd(sd, db2, argv)
            after2 = read_back()
            wit = {"case": case, "cmd": cmd}
            for kind in case["kinds"]:
                res.seen("mutation_kinds_failing_to_decode", kind)
            res.shape(json.dumps([sorted(case["kinds"]), sorted(case["valid"]), cmd]))
            where = f"{cmd} with stale kinds {sorted(case['kinds'])}"
            if r1.returncode != 0:
                tail = (r1.stderr or "").strip().splitlines()[-1:] or [""]
                exc = tail[0].split(":")[0][:40]
                res.violation(f"command-fails-on-stale-rows:{exc}", f"{where}: exit status {r1.returncode}: {r1.stderr[-300:]}", wit)
                continue
            if r2.returncode != 0:
                res.violation("harness:command-fails-on-valid-rows", f"{where}: {r2.stderr[-300:]}", wit)
                continue
            if r1.stdout != r2.stdout and normalise(r1.stdout) != normalise(r2.stdout):
                res.violation("output-differs-from-decodable-rows-alone", f"{where}: stdout differs from the same command on the decodable rows only", dict(wit, got=r1.stdout[:800], want=r2.stdout[:800]))
            if cmd == "apply" and after1 != after2 and normalise(after1) != normalise(after2):
                res.violation("applied-file-differs-from-decodable-rows-alone", f"{where}: the rewritten module differs", wit)
            err = r1.stderr or ""
            if nstale:
                if cmd == "stub -v":
                    nwarn = sum(1 for ln in err.splitlines() if ln.startswith("WARNING: Failed decoding trace"))
                    res.count("verbose_warnings_seen", nwarn)
                    if nwarn != nstale:
                        res.violation("skipped-rows-not-each-reported", f"{where}: {nwarn} warnings for {nstale} skipped rows", wit)
                else:
                    if f"{nstale} traces failed to decode" not in err:
                        res.violation("skipped-count-not-reported", f"{where}: stderr lacks '{nstale} traces failed to decode': {err[-200:]!r}", wit)
                    if "failed to decode" in r1.stdout:
                        res.violation("skipped-count-on-stdout", where, wit)
            if nvalid == 0:
                res.count("nothing_decodable_cases")
                if "No traces found" not in err:
                    res.violation("no-traces-message-missing", f"{where}: nothing decodable but no 'No traces found' message", wit)
            res.sample({"kinds": case["kinds"], "cmd": cmd, "stale_rows": nstale, "valid_rows": nvalid}, cap=1)
        shutil.rmtree(sd, ignore_errors=True)
    shutil.rmtree(d, ignore_errors=True)
    return res.out()


def run(ck):
    quick = ck.tier == "quick"
    kinds = sorted(MUTATIONS)
    cases = []
    rs = ck.rng("cases")
    cid = 0
    subsets = [[k] for k in kinds] + [list(c) for c in itertools.combinations(kinds, 2)] + [list(c) for c in itertools.combinations(kinds, 3)]
    if quick:
        subsets = [[k] for k in kinds] + rs.sample(subsets[len(kinds):], 30)
    for ks in subsets:
        for rep in range(1 if quick else 3):
            cid += 1
            valid = rs.sample(VALID, rs.randint(1, len(VALID)))
            cases.append({"id": f"{ck.seed}_{cid}", "seed": f"C10:{ck.seed}:{cid}", "kinds": ks, "valid": valid, "cmds": ["stub", "stub -v", "apply"],
                          "dup": rs.random() < 0.3, "k": 3 if cid % 3 == 0 else 0})
    for ks in ([kinds[:3], kinds[3:7], kinds] if quick else [list(c) for c in itertools.combinations(kinds, 2)][:20] + [kinds]):
        cid += 1
        cases.append({"id": f"{ck.seed}_{cid}", "seed": f"C10:{ck.seed}:{cid}", "kinds": ks, "valid": [], "cmds": ["stub", "stub -v", "apply"], "dup": False})
    for j in range(2 if quick else 6):
        cid += 1
        cases.append({"id": f"{ck.seed}_{cid}", "seed": f"C10:{ck.seed}:{cid}", "kinds": [], "valid": ["keep1", "keep2"], "cmds": ["stub", "stub -v", "apply"],
                      "dup": False, "target_removed": True if j % 2 == 0 else "dotted"})
    # `<module>:<prefix>` targets: prefixes that name no function (any more) but select stored rows, live and stale ones
    for j, (pfx, ks) in enumerate([("keep", kinds[:2]), ("K.keep", kinds[2:4]), ("uses_", kinds), ("gone", kinds), ("to_", kinds), ("u", kinds[:5])] * (1 if quick else 4)):
        cid += 1
        cases.append({"id": f"{ck.seed}_{cid}", "seed": f"C10:{ck.seed}:{cid}", "kinds": ks, "valid": list(VALID), "cmds": ["stub", "stub -v", "apply"],
                      "dup": j % 2 == 1, "qual_prefix": pfx})
    n = core.NPROC
    for r in core.pmap("vf.props.c10:work", [{"cases": cases[i::n]} for i in range(n)], timeout=3400):
        ck.merge(r)
    for kd in kinds:
        ck.counters["kind:" + kd] = 1 if kd in ck.sets.get("mutation_kinds_failing_to_decode", ()) else 0
        ck.need("kind:" + kd, 1)
    ck.need("commands_stub", 30)
    ck.need("commands_apply", 30)
    ck.need("nothing_decodable_cases", 3)
    ck.need("target_removed_cases", 1)
    ck.need("target_parent_package_removed_cases", 1)
    ck.need("qualname_prefix_cases", 5)
    ck.need("verbose_warnings_seen", 30)
    ck.need("rows_disagreeing_on_parameter_names", 20)
    ck.need("cases_with_local_scope_rows", 10)
    ck.need("commands_with_typeddict_limit", 30)
    return ck.finish(
        rule="stores mixing valid rows of a fixture module with stale rows of every kind (function removed / now an int / a class / local / "
        "a settable property, argument / return / yield class removed, class name rebound to a non-type, module / submodule / nested class "
        "removed; subsets up to 3 kinds, shuffled insertion orders, duplicates), each of `stub`, `stub -v`, `apply` run in its own interpreter "
        "against version B; stdout / applied file compared with the same command on a copy of the store holding the decodable rows only; skipped "
        "count / one warning per skipped row on stderr; exit status 0; 'No traces found' when nothing decodes. distinct = (kinds, valid functions, command)",
        assumptions=["which rows are stale is known by construction (the mutation applied to the module)"],
    )


def replay(ck, path):
    data = json.load(open(path))
    cs = [c["witness"]["case"] for c in data.get("cases", []) if c.get("witness") and "case" in c["witness"]]
    ck.merge(work({"cases": cs}))
    return ck.finish(rule="replay of " + path)
