"""Shared harness for C01/C12/C13: load a generated target module, drive it under the real tracer,
record ground truth at the call boundary, build stubs through the real code."""
import importlib
import inspect
import os
import sys

from vf.fixtures import helpers


class Err(Exception):
    pass


def load(d, m):
    path = os.path.join(d, m.name + ".py")
    with open(path, "w") as f:
        f.write(m.source)
    importlib.invalidate_caches()
    if d not in sys.path:
        sys.path.insert(0, d)
    sys.modules.pop(m.name, None)
    return importlib.import_module(m.name), path


def live_function(tmod, f):
    """The raw function object behind a FuncSpec (unwrapping classmethod/staticmethod/property)."""
    owner = tmod
    for c in f.cls_path:
        owner = inspect.getattr_static(owner, c)
    raw = inspect.getattr_static(owner, f.name)
    kind = "plain"
    if isinstance(raw, classmethod):
        raw, kind = raw.__func__, "classmethod"
    elif isinstance(raw, staticmethod):
        raw, kind = raw.__func__, "staticmethod"
    elif isinstance(raw, property):
        raw, kind = raw.fget, "property"
    return inspect.unwrap(raw), kind


def drive(tmod, m, plan, records=None):
    """Execute the call plan (outside any traced file).  records: list to append ground truth to."""
    ns = tmod.__dict__
    helpers.reset()
    for f, args, kwargs in plan:
        rec = {"qual": f.qual, "bound": {}, "result": None, "returned": False, "exc": None, "yields": []}
        try:
            target = eval(m.access(f), ns)  # noqa: S307
            if f.kind == "property":
                rec["result"], rec["returned"] = target, True
            else:
                a = [eval(e, ns) for e in args]  # noqa: S307
                kw = {k: eval(e, ns) for k, e in kwargs.items()}  # noqa: S307
                try:
                    ba = inspect.signature(target).bind(*a, **kw)
                    ba.apply_defaults()
                    rec["bound"] = dict(ba.arguments)
                except TypeError as e:
                    rec["exc"] = "bind:" + str(e)
                    if records is not None:
                        records.append(rec)
                    continue
                r = target(*a, **kw)
                if f.flavor == "gen":
                    try:
                        while True:
                            rec["yields"].append(next(r))
                    except StopIteration as s:
                        rec["result"], rec["returned"] = s.value, True
                elif f.flavor == "coro":
                    try:
                        while True:
                            r.send(None)
                    except StopIteration as s:
                        rec["result"], rec["returned"] = s.value, True
                else:
                    rec["result"], rec["returned"] = r, True
        except Exception as e:  # noqa
            rec["exc"] = type(e).__name__
        if records is not None:
            records.append(rec)


def trace_plan(tmod, path, m, plan, k, records=None):
    """Run the plan under the real trace_calls; -> list of CallTraces."""
    from monkeytype.tracing import CallTraceLogger, trace_calls

    class L(CallTraceLogger):
        def __init__(self):
            self.traces = []

        def log(self, t):
            self.traces.append(t)

    lg = L()
    with trace_calls(lg, k, lambda code: code.co_filename == path):
        drive(tmod, m, plan, records)
    return lg.traces


def unload(m, d):
    sys.modules.pop(m.name, None)
    if d in sys.path:
        sys.path.remove(d)


def plan_to_json(m, plan):
    return [{"qual": f.qual, "access": m.access(f), "args": a, "kwargs": kw, "flavor": f.flavor, "kind": f.kind} for f, a, kw in plan]


class _F:
    def __init__(self, d):
        self.qual, self.flavor, self.kind, self._access = d["qual"], d["flavor"], d["kind"], d["access"]


class _M:
    def access(self, f):
        return f._access


def drive_json(tmod, plan_json, records=None):
    drive(tmod, _M(), [(_F(d), d["args"], d["kwargs"]) for d in plan_json], records)
