"""C12 - stubs are valid Python and mirror the traced functions' real signatures.  DESIGN 6 C12."""
import inspect
import json
import random
import re

from vf import core
from vf.gen import modules as gm
from vf.oracle.stubeval import StubEval
from vf.props import modrun

KIND = {inspect.Parameter.POSITIONAL_ONLY: "posonly", inspect.Parameter.POSITIONAL_OR_KEYWORD: "normal", inspect.Parameter.VAR_POSITIONAL: "varargs",
        inspect.Parameter.KEYWORD_ONLY: "kwonly", inspect.Parameter.VAR_KEYWORD: "varkw"}


def judge_stub(res, text, tmod, m, traced_quals, wit):
    """Signature comparison of every stub function against the live function."""
    keys = {}

    def bad(key, txt):
        keys.setdefault(key, []).append(txt)

    se = StubEval(text, tmod)
    if se.syntax_error:
        if re.search(r"^\s*class \w+(\.\w+)+:", text, re.M):
            bad("method-of-nested-class-rendered-under-dotted-class-name", se.syntax_error)
        else:
            bad("stub-does-not-parse", se.syntax_error)
        return keys
    for kind, detail, loc in se.events:
        if kind == "function-duplicated":
            bad("function-duplicated", detail)
    got = set(se.funcs)
    for q in sorted(traced_quals - got):
        bad("traced-function-missing-from-stub", q)
    for q in sorted(got - traced_quals):
        bad("untraced-function-in-stub", q)
    specs = {f.qual: f for f in m.funcs}
    for q in sorted(got & traced_quals):
        info = se.funcs[q]
        f = specs[q]
        raw, kind = modrun.live_function(tmod, f)
        res.count("signatures_compared")
        exp_deco = [] if kind == "plain" else [kind]
        if info.decorators != exp_deco:
            bad("wrong-decorator", f"{q}: stub has {info.decorators}, function is {kind}")
        if info.is_async != inspect.iscoroutinefunction(raw):
            bad("async-mismatch", f"{q}: stub async={info.is_async}")
        if info.cls_path != f.cls_path:
            bad("function-outside-its-class", f"{q}: stub places it under {info.cls_path}")
        sig = inspect.signature(raw)
        live = [(p.name, KIND[p.kind], p.default is not inspect.Parameter.empty) for p in sig.parameters.values()]
        stub = [(n, k, d) for (n, k, _a, d) in info.params()]
        if live != stub:
            bad("parameter-list-differs", f"{q}: live {live} stub {stub}")
        pk = [k for _, k, _ in live]
        res.seen("param_patterns", "".join(str(int(x in pk)) for x in ("posonly", "normal", "varargs", "kwonly", "varkw")))
        if kind in ("plain", "classmethod", "property") and f.kind != "module" and f.kind != "static":
            ps = info.params()
            if ps and ps[0][2] is not None:
                bad("receiver-annotated", f"{q}: receiver {ps[0][0]} carries an annotation")
        lines = [ln for ln in text.splitlines() if re.match(rf"\s*(async )?def {re.escape(f.name)}\(", ln)]
        if lines and lines[0].rstrip().endswith("("):
            res.count("signatures_wrapped")
        if len(f.cls_path) == 2:
            res.count("two_level_methods")
    return keys


def work(p):
    from monkeytype.stubs import build_module_stubs_from_traces
    from monkeytype.tracing import CallTrace
    import monkeytype.typing as mt

    res = core.Res()
    d = core.scratch("c12")
    for spec in p["modules"]:
        rng = random.Random(spec["seed"])
        nested = spec.get("nested", False)
        m = gm.Mod(rng, spec["name"], {"nested_classes": nested, "pattern": spec.get("pattern"), "wrapped": True}).build(spec.get("nfuncs", 10))
        res.count("evaluations")
        try:
            tmod, path = modrun.load(d, m)
        except Exception as e:
            res.violation("harness:module-does-not-import", repr(e), {"source": m.source})
            continue
        allq = [f.qual for f in m.funcs]
        subset = set(rng.sample(allq, rng.randint(1, len(allq))))
        wit = {"spec": spec}
        if spec.get("real", True):
            plan = m.call_plan(rng, subset)
            traces = modrun.trace_plan(tmod, path, m, plan, spec.get("k", 0))
            res.count("real_traced_modules")
            if spec.get("k"):
                res.count("real_traced_modules_with_typeddicts_on")
        else:
            traces = []
            for f in m.funcs:
                if f.qual not in subset:
                    continue
                raw, _ = modrun.live_function(tmod, f)
                names = [pp.name for pp in f.named()]
                at = {n: rng.choice([int, str, mt.NoneType]) for n in names if rng.random() < 0.8}
                traces.append(CallTrace(raw, at, rng.choice([None, int, mt.NoneType]), rng.choice([None, None, int]) if f.flavor == "gen" else None))
            res.count("direct_trace_modules")
        traced = {t.func.__qualname__ for t in traces}
        if not traced:
            continue
        if any(f.subdeco for f in m.funcs if f.qual in traced):
            res.count("modules_with_traced_descriptor_subclass")
        if any(f.wrapped and f.flavor == "coro" for f in m.funcs if f.qual in traced):
            res.count("modules_with_traced_wrapped_coroutine")
        try:
            if spec.get("store") or any(f.wrapped for f in m.funcs):
                # what `monkeytype stub` does: rows of the store decoded back to functions by module and qualified name, undecodable
                # rows skipped (the frame of a functools.wraps wrapper is traced too, under the wrapped function's name: for a
                # coroutine function its return type is the coroutine object's, which does not decode)
                from monkeytype.db.sqlite import SQLiteStore

                st = SQLiteStore.make_store(":memory:")
                st.add(traces)
                traces = []
                for th in st.filter(m.name, limit=100000):
                    try:
                        traces.append(th.to_trace())
                    except Exception:
                        res.count("undecodable_rows_skipped")
                st.conn.close()
                res.count("modules_through_store")
            stubs = build_module_stubs_from_traces(traces, spec.get("k", 0))
            text = stubs[m.name].render()
        except Exception as e:
            res.violation(f"stub-build-raises:{type(e).__name__}", repr(e)[:300], wit)
            continue
        keys = judge_stub(res, text, tmod, m, traced, wit)
        res.shape(json.dumps([nested, sorted({(f.kind, f.flavor, len(f.params)) for f in m.funcs if f.qual in traced})]))
        for key, texts in keys.items():
            res.violation(key, f"{m.name}: {texts[0][:300]}" + (f" (+{len(texts) - 1} more)" if len(texts) > 1 else ""), dict(wit, stub=text[:2500], details=texts[:5]))
        if not keys:
            res.sample({"module": m.name, "traced": sorted(traced)[:4], "stub_head": text[:200]}, cap=1)
        modrun.unload(m, d)
    return res.out()


def run(ck):
    quick = ck.tier == "quick"
    n = 9000 if quick else 40000
    specs = []
    for i in range(n):
        r = ck.rng("m", i)
        pat = [bool((i >> b) & 1) for b in range(5)] if i % 3 == 0 else None
        specs.append({"name": f"vfm12_{ck.seed}_{i}", "seed": f"C12:{ck.seed}:{i}", "nfuncs": r.choice([6, 10, 14]), "nested": r.random() < 0.1,
                      "real": r.random() < 0.6, "pattern": pat, "store": i % 3 == 1, "k": 3 if i % 4 == 2 else 0})
    specs.insert(0, {"name": f"vfm12_pinned_nested_{ck.seed}", "seed": "C12:pinned-nested", "nfuncs": 14, "nested": True, "real": True, "pattern": None},
                 )
    specs.insert(1, {"name": f"vfm12_pinned_nested_td_{ck.seed}", "seed": "C12:pinned-nested-td", "nfuncs": 14, "nested": True, "real": True, "pattern": None, "k": 3})
    k = core.NPROC * (2 if quick else 8)
    for r in core.pmap("vf.props.c12:work", [{"modules": specs[i::k]} for i in range(k)], timeout=3400):
        ck.merge(r)
    ck.need("signatures_compared", 2000)
    ck.need("param_patterns", 24, "parameter-kind presence patterns unseen")
    ck.need("signatures_wrapped", 20, "no signature wrapped across lines")
    ck.need("real_traced_modules", 100)
    ck.need("modules_through_store", 200)
    ck.need("real_traced_modules_with_typeddicts_on", 100)
    ck.need("modules_with_traced_descriptor_subclass", 50)
    ck.need("modules_with_traced_wrapped_coroutine", 20)
    return ck.finish(
        rule="generated modules (functions/methods of every kind, every presence pattern of positional-only / positional / *args / keyword-only "
        "/ **kwargs parameters with and without defaults incl. None, long names forcing wrapping, coroutine functions, generators, "
        "a 10% stratum with classes two levels deep); a random subset of functions traced for real (trace_calls) or through constructed "
        "CallTraces; stub parsed with ast and each FunctionDef compared with inspect.signature of the live function. distinct = set of "
        "(kind, flavour, arity) traced",
        assumptions=["inspect.signature of the live function is the reference for names, kinds, order and defaults"],
    )


def replay(ck, path):
    data = json.load(open(path))
    sp = [c["witness"]["spec"] for c in data.get("cases", []) if c.get("witness") and "spec" in c["witness"]]
    ck.merge(work({"modules": sp}))
    return ck.finish(rule="replay of " + path)
