"""C11 - rendered annotations denote the inferred type and stubs are self-contained.  DESIGN 6 C11."""
import importlib
import json
import os
import random
import sys

from vf import core
from vf.gen import types as gt
from vf.oracle import rt as RT
from vf.oracle.stubeval import StubEval
from vf.oracle import tdnames as TDN

NFUNC = 10
_HIER = __import__("re").compile(r"(?<![\w.'])(A|B|C|D|M|R1|R2|X[1-6]|E[1-6]|Outer|bool|float|bytes)(?![\w'])")

FILES = {
    "utils.py": "class B:\n    pass\n\n\nclass U:\n    pass\n",
    "pkg/__init__.py": "class Top:\n    pass\n",
    "pkg/utils.py": "class P:\n    pass\n\n\nclass B:\n    pass\n\n\nclass utils:\n    pass\n",
    "foo.py": "class Foo:\n    pass\n\n\nclass Baz:\n    pass\n",
    "barfoo.py": "class Qux:\n    pass\n\n\nclass Baz:\n    pass\n",
    "shape.py": "class shape:\n    class Part:\n        class Bolt:\n            pass\n",
    "mytyping.py": "class Tx:\n    pass\n",
    "_priv.py": "class Hidden:\n    pass\n",
    "only_in_td.py": "class Rare:\n    pass\n",
    "pkg/typing.py": "class Hint:\n    pass\n",
    # user-defined generic classes, one of them nested in another class (they reach the renderer parametrised through source annotations)
    "gen.py": "from typing import Generic, TypeVar\n\nT = TypeVar('T')\n\n\nclass Box(Generic[T]):\n    pass\n\n\nclass Shelf:\n    class Slot(Generic[T]):\n        pass\n",  # a user module whose dotted name merely ends in `typing`
}


def target_source(name):
    lines = ["class Own:", "    pass", "", "", "class Outer:", "    class Inner:", "        pass", "", ""]
    for i in range(NFUNC):
        lines += [f"def f{i}(a, b, c):", "    return None", "", ""]
    for i in range(3):
        lines += [f"def h{i}(a, b=None, c=None):", "    return None", "", ""]
    lines += ["def g0(a):", "    yield a", "", "", "class Kls:", "    def m(self, a, b):", "        return None", "",
              "    class Nest:", "        def nm(self, a):", "            return None", ""]
    return "\n".join(lines)


# fixture modules that are stub targets themselves (functions of `pkg.utils` taking classes of `utils` and the other way round ...)
ALSO_TARGETS = {"utils.py": "utils", "pkg/utils.py": "pkg.utils", "foo.py": "foo", "barfoo.py": "barfoo", "pkg/__init__.py": "pkg", "pkg/typing.py": "pkg.typing",
                "mytyping.py": "mytyping"}
TARGET_PAIRS = [("pkg.utils", "utils"), ("utils", "pkg.utils"), ("foo", "barfoo"), ("barfoo", "foo"), ("pkg", "pkg.utils"), ("pkg.utils", "pkg"),
                ("pkg.typing", "mytyping"), ("mytyping", "pkg.typing")]


def write_fixture(d, tname):
    for rel, src in FILES.items():
        p = os.path.join(d, rel)
        os.makedirs(os.path.dirname(p), exist_ok=True)
        if not os.path.exists(p):
            open(p, "w").write(src + ("\n\n" + target_source(rel) if rel in ALSO_TARGETS else ""))
    open(os.path.join(d, tname + ".py"), "w").write(target_source(tname))


ATOM_SETS = {
    # distinct class names per import context (main stratum)
    "main": ["int", "str", "NoneType", "uB", "uU", "puP", "fFoo", "bfQux", "Own", "OInner", "shp", "shpPart", "shpBolt", "SIO", "txTx", "pu_utils", "pTop", "pvHidden", "ptHint"],
    # same class name imported from two modules (collision stratum)
    "samename": ["int", "uB", "puB", "fBaz", "bfBaz", "NoneType"],
}


def setup_ns(tmod):
    import _io
    import barfoo
    import foo
    import _priv
    import only_in_td
    import pkg
    import pkg.typing
    import pkg.utils
    import shape
    import mytyping
    import utils
    import gen

    ns = gt.NS
    ns.update({"gBox": gen.Box, "gSlot": gen.Shelf.Slot})
    ns.update({"uB": utils.B, "uU": utils.U, "puP": pkg.utils.P, "puB": pkg.utils.B, "fFoo": foo.Foo, "fBaz": foo.Baz, "bfQux": barfoo.Qux,
               "bfBaz": barfoo.Baz, "Own": tmod.Own, "OInner": tmod.Outer.Inner, "shp": shape.shape, "shpPart": shape.shape.Part, "shpBolt": shape.shape.Part.Bolt,
               "SIO": _io.StringIO, "txTx": mytyping.Tx, "pu_utils": pkg.utils.utils, "pTop": pkg.Top, "pvHidden": _priv.Hidden, "oRare": only_in_td.Rare,
               "ptHint": pkg.typing.Hint})


def gen_sig_type(rng, stratum, with_td):
    atoms = ATOM_SETS[stratum]
    old = (gt.ATOMS, gt.MORE_ATOMS, gt.HASHABLE_LEAVES)
    gt.ATOMS, gt.MORE_ATOMS = atoms, atoms
    gt.HASHABLE_LEAVES = atoms + ["Tuple[()]", "Callable", "Type[Own]", "Type[int]"]
    try:
        for _ in range(50):
            e = gt.gen_type(rng, maxdepth=3) if rng.random() < 0.7 else gt.gen_union(rng, maxdepth=2)
            e = e.replace("Type[A]", "Type[Own]").replace("Type[Outer.Inner]", "Type[OInner]")
            for bad in ("Type[B]", "Type[C]", "Type[D]", "Type[M]"):
                e = e.replace(bad, "Type[uU]")
            if not with_td and "TD(" in e:
                continue
            if _HIER.search(e):
                continue
            if rng.random() < 0.06:
                e = rng.choice(["Tuple[{e}, ...]", "List[Tuple[{e}, ...]]", "Optional[Tuple[{e}, ...]]"]).format(e=e)
            return e
        return "int"
    finally:
        gt.ATOMS, gt.MORE_ATOMS, gt.HASHABLE_LEAVES = old


def classify(ev_kind, detail, loc, exprs_in_sig, stub_text):
    """Mechanism key of a stub-evaluation event."""
    if ev_kind == "stub-import-fails" and "DUMMY_NAME" in detail:
        return "typeddict-under-undescended-generic"
    if ev_kind == "name-not-provided-in-typeddict-class-body":
        return "name-not-provided-in-typeddict-class-body"
    if ev_kind == "typeddict-class-name-collision":
        return "typeddict-class-name-collision"
    if ev_kind == "name-not-provided-by-stub":
        if "DUMMY_NAME" in detail or "ForwardRef(" in detail:
            return "typeddict-under-undescended-generic"
        return "name-not-provided-by-stub"
    return ev_kind


def judge_build(res, tmod, traces_spec, k, stratum, wit, co=None):
    """traces_spec: [(fname, {'a': expr, ...}, ret expr | None)] -> build stub through the real code and judge.
    co = (second target module, its traces_spec): both modules' traces go into ONE build call (as StubIndexBuilder does),
    each module's stub is judged on its own."""
    from monkeytype.stubs import build_module_stubs_from_traces
    from monkeytype.tracing import CallTrace
    from monkeytype.typing import NoOpRewriter

    if co is not None:
        tm2, spec2 = co
        traces2, handed2 = _traces_of(tm2, spec2)
        traces1, handed1 = _traces_of(tmod, traces_spec)
        res.count("evaluations")
        res.count("two_module_builds")
        try:
            stubs = build_module_stubs_from_traces(traces1 + traces2, k, rewriter=NoOpRewriter())
            texts = [(tmod, stubs[tmod.__name__].render(), handed1), (tm2, stubs[tm2.__name__].render(), handed2)]
        except Exception as e:
            res.violation(f"stub-build-raises:{type(e).__name__}", f"{e!r:.300}", wit)
            return
        for tm, text, handed in texts:
            _judge_text(res, tm, text, handed, k, stratum, wit)
        return
    traces, handed = _traces_of(tmod, traces_spec)
    res.count("evaluations")
    try:
        stubs = build_module_stubs_from_traces(traces, k, rewriter=NoOpRewriter())
        text = stubs[tmod.__name__].render()
    except Exception as e:
        res.violation(f"stub-build-raises:{type(e).__name__}", f"{e!r:.300}", wit)
        return
    _judge_text(res, tmod, text, handed, k, stratum, wit)
    cli_spec = [it for it in traces_spec if "..." not in json.dumps(it)]  # (homogeneous tuples have no stored form)
    if wit.get("via_cli") and cli_spec:
        # the same traces through the store and the `stub` command (decode, limit pass, rewriter choice, import of the module by name)
        import tempfile

        from monkeytype.db.sqlite import SQLiteStore
        from vf.props.c01 import cli

        traces2, handed2 = _traces_of(tmod, cli_spec)
        fd, db = tempfile.mkstemp(suffix=".sqlite3")
        os.close(fd)
        try:
            st = SQLiteStore.make_store(db)
            st.add(traces2)
            st.conn.close()
            os.environ["MT_DB_PATH"] = db
            rc, text2, err = cli(["-c", f"vf.mon.cfg:K{k}_NoOpRewriter", "stub", tmod.__name__])
            res.count("builds_through_store_and_cli")
            if rc != 0:
                res.violation("stub-command-fails", f"rc={rc} {err[-300:]}", wit)
            else:
                _judge_text(res, tmod, text2, handed2, k, stratum, dict(wit, route="store+cli"))
        finally:
            os.environ.pop("MT_DB_PATH", None)
            os.remove(db)


_ANN_COUNT = [0]
_HINTS = {}  # id(handed) -> [(hint, type)] as the documented naming scheme sees the positions of one module


def _traces_of(tmod, traces_spec):
    from monkeytype.tracing import CallTrace

    traces = []
    handed = {}
    none_ret = True
    for item in traces_spec:
        fname, args, ret = item[0], item[1], item[2]
        yld = item[3] if len(item) > 3 else None
        f = tmod
        for part in fname.split("."):
            f = getattr(f, part)
        at = {n: gt.ev(e) for n, e in args.items()}
        rt_ = gt.ev(ret) if ret else None
        yt_ = gt.ev(yld) if yld else None
        traces.append(CallTrace(f, at, rt_, yt_))
        # source annotations reach the renderer too (the default strategy replicates them): set on the live function for this build
        ann = {n: gt.ev(e) for n, e in (item[4] if len(item) > 4 and item[4] else {}).items()}
        getattr(f, "__func__", f).__annotations__ = dict(ann)
        if ann:
            _ANN_COUNT[0] += len(ann)
            at = dict(at, **{n: t for n, t in ann.items() if n != "return"})
            if "return" in ann and yt_ is None:
                rt_ = ann["return"]
        if yt_ is not None:
            import typing as _t
            none_ret = rt_ is None or rt_ is type(None)
            rt_ = _t.Iterator[yt_] if none_ret else _t.Generator[yt_, type(None), rt_]
        handed[fname] = (at, rt_)
        _HINTS.setdefault(id(handed), []).extend(TDN.hints_of_function(f.__qualname__, at, gt.ev(ret) if ret else None, yt_))
    return traces, handed


def _judge_text(res, tmod, text, handed, k, stratum, wit):
    se = StubEval(text, tmod)
    wit = dict(wit, stub=text[:3000])
    keys = {}
    for kind, detail, loc in se.events:
        keys.setdefault(classify(kind, detail, loc, None, text), []).append(f"{loc}: {detail}")
    modules_in_stub = sorted({ln.split()[1] for ln in text.splitlines() if ln.startswith("from ")})
    for i, a in enumerate(modules_in_stub):
        for b in modules_in_stub[i + 1:]:
            res.seen("module_pairs", f"{a}+{b}")
    for fname, (at, rt_) in handed.items():
        info = se.funcs.get(fname)
        if info is None:
            if se.syntax_error is None:
                keys.setdefault("function-missing-from-stub", []).append(fname)
            continue
        params = {p[0]: p for p in info.params()}
        try:
            import inspect as _inspect

            fobj = tmod
            for part in fname.split("."):
                fobj = getattr(fobj, part)
            none_default = {n for n, prm in _inspect.signature(fobj).parameters.items() if prm.default is None}
        except Exception:
            none_default = set()
        for n, T in list(at.items()) + ([("return", rt_)] if rt_ is not None else []):
            res.count("annotations_judged")
            exp = RT.to_rt(T)
            if n in none_default:
                exp = RT.union([exp, RT.NONE])  # a None default makes the rendered annotation Optional[...]
                res.count("none_default_positions_judged")
            for kd in RT.walk(exp):
                if kd[0] in ("list", "set", "dict", "defaultdict", "tuple", "union", "td") and any(c[0] == "td" for c in RT.children(kd)):
                    res.seen("container_with_typeddict", kd[0])
            node = info.node.returns if n == "return" else (params[n][2] if n in params else None)
            if node is None:
                keys.setdefault("annotation-missing", []).append(f"{fname}({n})")
                continue
            before = len(se.events)
            got = se.ann_rt(node, f"{fname}({n})")
            new_events = se.events[before:]
            for kind, detail, loc in new_events:
                keys.setdefault(classify(kind, detail, loc, None, text), []).append(f"{loc}: {detail}")
            if got is None:
                continue
            if RT.has_unknown(exp):
                res.count("unverifiable_handed_type")
                continue
            if got != exp:
                # which mechanism? a substring-stripped module prefix leaves a dotted remnant or a glued name
                src = __import__("ast").unparse(node)
                key = "annotation-denotes-other-type"
                if stratum == "samename":
                    key = "same-class-name-imported-from-two-modules"
                keys.setdefault(key, []).append(f"{fname}({n}): stub says {src} = {RT.show(got)}, handed type {RT.show(exp)}")
    res.shape(json.dumps([stratum, k, sorted(RT.shape(RT.to_rt(T)) for at, _ in handed.values() for T in at.values())[:6]]))
    collided = "typeddict-class-name-collision" in keys
    # the listed finding is the ambiguity of the documented naming scheme itself: a collision is explained by it only when that
    # scheme, re-stated independently, gives one name to two shapes among the positions of this module
    ambiguous = TDN.ambiguous_names(_HINTS.pop(id(handed), []))
    stub_collided = {loc.split()[-1] for kind, _d, loc in se.events if kind == "typeddict-class-name-collision"}
    unexplained = sorted(stub_collided - ambiguous)
    if ambiguous:
        res.count("builds_where_documented_naming_is_ambiguous")
    if k:
        res.count("typeddict_builds_naming_checked")
    if unexplained:
        texts = keys.pop("typeddict-class-name-collision", []) + keys.pop("annotation-denotes-other-type", [])
        keys["typeddict-classes-collide-where-documented-naming-is-unambiguous"] = [f"classes {unexplained}: " + (texts[0] if texts else "")] + texts[1:]
        collided = False
    for key, texts in keys.items():
        if stratum == "samename" and key in ("name-not-provided-by-stub", "annotation-denotes-other-type"):
            key = "same-class-name-imported-from-two-modules"
        if collided and key == "annotation-denotes-other-type":
            key = "typeddict-class-name-collision"  # the annotation resolves to the other class of that name
        res.violation(key, texts[0][:400] + (f" (+{len(texts) - 1} more)" if len(texts) > 1 else ""), dict(wit, details=texts[:5]))
    if not keys:
        res.sample({"stub_head": text[:300], "k": k}, cap=1)


TD_WRAPS = ["{t}", "List[{t}]", "Dict[str, {t}]", "Tuple[{t}, int]", "Optional[{t}]", "DefaultDict[str, {t}]", "List[Dict[str, {t}]]",
            "Tuple[{t}, {u}]", "Dict[int, List[{t}]]", "Tuple[List[{t}]]",
            # two TypedDicts at sibling positions, each further down its own container (unambiguous under the documented naming)
            "Tuple[List[{t}], List[{u}]]", "Tuple[{t}, List[{u}]]", "Tuple[int, List[{t}], Set[int], List[{u}]]", "Union[List[{t}], Tuple[int, int, {u}]]",
            "Dict[str, Tuple[{t}, List[{u}]]]", "Tuple[List[{t}], Tuple[int, {u}]]",
            # homogeneous tuples (only a rewriter produces them - RewriteLargeUnion, or a custom one - but then they reach the renderer)
            "Tuple[{t}, ...]", "List[Tuple[{t}, ...]]", "Dict[str, Tuple[{t}, ...]]"]


# annotations that only a source file can contribute (inference never produces them) and that the renderer must still spell faithfully
ANN_POOL = ["Callable[[], int]", "Callable[[int, uB], Own]", "Callable[..., Any]", "Optional[Callable[[], NoneType]]", "List[Callable[[int], str]]",
            "Dict[str, Callable[[], uU]]", "Callable[[Callable[[], int]], puP]", "Type[Own]", "Tuple[Callable[[], int], ...]", "Callable[[], OInner]",
            "Union[Callable[[fFoo], bfQux], int]", "gBox[int]", "gSlot[int]", "List[gSlot[uB]]", "Optional[gBox[Own]]",
            # None as an argument of a generic nested inside a generic that is rendered through its repr
            "Callable[[], Tuple[int, NoneType]]", "Callable[[int], Dict[str, NoneType]]", "Callable[[], Generator[int, NoneType, NoneType]]", "gBox[Tuple[int, NoneType]]"]


def gen_td_expr(rng, fresh, fields, depth=0):
    n = rng.choice([1, 2, 3])
    items = []
    names = fresh(n)
    for _ in range(n):
        r = rng.random()
        if depth < 2 and r < 0.3:
            v = gen_td_expr(rng, fresh, fields, depth + 1)
        elif fields == "builtin":
            v = rng.choice(["int", "str", "NoneType", "int"])
        else:
            v = rng.choice(["uB", "puP", "Own", "OInner", "List[int]", "Optional[str]", "Dict[str, uU]", "Type[Own]", "Tuple[int, str]", "shp", "SIO"])
        items.append((names.pop(), v))
    nreq = rng.randint(0, n)
    req = ", ".join(f"'{k}': {v}" for k, v in items[:nreq])
    opt = ", ".join(f"'{k}': {v}" for k, v in items[nreq:])
    return "TD({" + req + "}, {" + opt + "})"


def gen_build(rng, force=None):
    r = rng.random()
    stratum = force or ("main" if r < 0.42 else ("td" if r < 0.78 else ("samename" if r < 0.85 else ("tdbody" if r < 0.93 else "tdcollide"))))
    counter = [0]

    def fresh(n):
        if stratum == "tdcollide":
            return rng.sample(["a", "b", "x", "y"], n)
        counter[0] += n
        return [f"k{counter[0] - i}" for i in range(n)]

    spec = []
    k = 0
    if stratum in ("main", "samename"):
        for i in range(NFUNC):
            if rng.random() < 0.8:
                spec.append((f"f{i}", {n: gen_sig_type(rng, stratum, False) for n in ("a", "b", "c") if rng.random() < 0.8},
                             gen_sig_type(rng, stratum, False) if rng.random() < 0.7 else None, None))
        if rng.random() < 0.5:
            spec.append(("Kls.m", {"a": gen_sig_type(rng, stratum, False), "b": gen_sig_type(rng, stratum, False)}, None, None))
        for i in range(3):
            # parameters whose default is None are rendered Optional[...]: also when another parameter has the very same type
            if rng.random() < 0.35:
                t1 = gen_sig_type(rng, stratum, False)
                t2 = t1 if rng.random() < 0.6 else gen_sig_type(rng, stratum, False)
                spec.append((f"h{i}", {"a": t1, "b": t2, **({"c": t1} if rng.random() < 0.3 else {})}, None, None))
        if rng.random() < 0.4:
            spec.append(("g0", {"a": gen_sig_type(rng, stratum, False)}, rng.choice([None, "int"]), gen_sig_type(rng, stratum, False)))
        if stratum == "main":
            for j, item in enumerate(spec):
                if item[3] is None and rng.random() < 0.3:
                    names = [n for n in ("a", "b", "c", "return") if rng.random() < 0.5 and (n != "c" or item[0].startswith("f"))] or ["a"]
                    spec[j] = item + ({n: rng.choice(ANN_POOL) for n in names},)
    else:
        k = 10
        fields = "user" if stratum == "tdbody" else "builtin"
        used = set()
        for i in range(NFUNC):
            if rng.random() < 0.7:
                args = {}
                for n in ("a", "b", "c"):
                    if rng.random() < 0.7:
                        if (n not in used or stratum == "tdcollide") and rng.random() < 0.5:
                            used.add(n)
                            w = rng.choice(TD_WRAPS)
                            args[n] = w.format(t=gen_td_expr(rng, fresh, fields), u=gen_td_expr(rng, fresh, fields))
                        else:
                            args[n] = gen_sig_type(rng, "main", False)
                ret = None
                if rng.random() < 0.6:
                    ret = rng.choice(TD_WRAPS).format(t=gen_td_expr(rng, fresh, fields), u=gen_td_expr(rng, fresh, fields)) if rng.random() < 0.5 else gen_sig_type(rng, "main", False)
                spec.append((f"f{i}", args, ret, None))
        if rng.random() < 0.4 and ("a" not in used or stratum == "tdcollide"):
            used.add("a")
            spec.append(("Kls.Nest.nm", {"a": rng.choice(TD_WRAPS[:4]).format(t=gen_td_expr(rng, fresh, "user" if stratum == "tdbody" else fields), u="int")}, None, None))
        if rng.random() < 0.6:
            spec.append(("g0", {"a": "int"}, rng.choice([None, "int", "NoneType"]), rng.choice(TD_WRAPS[:6]).format(t=gen_td_expr(rng, fresh, fields), u="int")))
    return stratum, k, [s for s in spec if s[1] or s[2] or s[3] or (len(s) > 4 and s[4])]


def work(p):
    res = core.Res()
    d = core.scratch("c11")
    sys.path.insert(0, d)
    tname = f"tgt_{p['id']}"
    write_fixture(d, tname)
    importlib.invalidate_caches()
    tmod = importlib.import_module(tname)
    open(os.path.join(d, tname + "_b.py"), "w").write(target_source(tname + "_b"))
    importlib.invalidate_caches()
    tmod_b = importlib.import_module(tname + "_b")
    setup_ns(tmod)
    rng = random.Random(p["seed"])
    for b in range(p["builds"]):
        stratum, k, spec = gen_build(rng)
        if not spec:
            continue
        res.count("stratum_" + stratum)
        co = None
        if stratum in ("tdbody", "main") and rng.random() < 0.4:
            # a second module traced in the same run: same parameter names, other classes
            _s, _k, spec_b = gen_build(rng, force=stratum)
            spec_b = [x for x in spec_b if not any("Own" in str(v) or "OInner" in str(v) for v in list(x[1].values()) + [x[2], x[3]])]
            if spec_b:
                co = (tmod_b, spec_b)
        tm1 = tmod
        pair = None
        if co is not None and rng.random() < 0.4:
            # the two modules are fixture modules whose names are dotted / textual suffixes of one another, each taking the other's classes
            spec = [x for x in spec if not any("Own" in str(v) or "OInner" in str(v) for v in list(x[1].values()) + [x[2], x[3]] + [str(x[4:])])]
            if not spec:
                continue
            pair = TARGET_PAIRS[rng.randrange(len(TARGET_PAIRS))]
            tm1, co = sys.modules[pair[0]], (sys.modules[pair[1]], co[1])
            res.count("builds_for_target_modules_named_like_imported_ones")
        judge_build(res, tm1, spec, k, stratum, {"spec": spec, "k": k, "stratum": stratum, "co_spec": co[1] if co else None, "targets": pair,
                                                 "via_cli": co is None and rng.random() < 0.12}, co=co)
    for pin in p.get("pinned", ()):
        tg = pin.get("targets")
        judge_build(res, sys.modules[tg[0]] if tg else tmod, pin["spec"], pin["k"], pin.get("stratum", "main"), {"pinned": pin.get("name")},
                    co=(sys.modules[tg[1]] if tg else tmod_b, [tuple(x) for x in pin["co"]]) if pin.get("co") else None)
        res.count("pinned_witnesses")
    sys.path.remove(d)
    res.count("source_annotations_handed_to_renderer", _ANN_COUNT[0])
    _ANN_COUNT[0] = 0
    return res.out()


PINNED = [
    {"name": "typeddict-field-needs-import", "k": 3, "stratum": "tdbody", "spec": [("f0", {"a": "TD({'x': uB}, {})"}, None)]},
    {"name": "typeddict-class-name-collision", "k": 3, "stratum": "tdcollide", "spec": [("f0", {"a": "TD({'x': int}, {})"}, None), ("f1", {"a": "TD({'y': str}, {})"}, None)]},
    {"name": "same-class-name-two-modules", "k": 0, "stratum": "samename", "spec": [("f0", {"a": "uB", "b": "puB"}, None)]},
    {"name": "module-prefix-substring", "k": 0, "spec": [("f0", {"a": "uU", "b": "puP"}, "bfQux"), ("f1", {"a": "fFoo", "b": "bfQux"}, "shpPart")]},
    {"name": "typeddict-under-defaultdict", "k": 3, "spec": [("f0", {"a": "DefaultDict[str, TD({'x': int}, {})]"}, None)]},
    {"name": "package-and-its-submodule", "k": 0, "spec": [("f0", {"a": "pTop", "b": "puP"}, "Dict[pTop, List[puP]]"), ("f1", {"a": "puP"}, "pTop")]},
    {"name": "typeddict-of-nested-class-method-needs-import", "k": 3, "stratum": "tdbody", "spec": [("Kls.Nest.nm", {"a": "TD({'x': oRare}, {})"}, None)]},
    {"name": "private-top-level-module", "k": 0, "spec": [("f0", {"a": "pvHidden"}, "List[pvHidden]")]},
    {"name": "target-named-like-an-imported-module", "k": 0, "targets": ["pkg.utils", "utils"], "spec": [("f0", {"a": "uB", "b": "puP"}, "List[uU]")],
     "co": [("f0", {"a": "puP", "b": "uB"}, "Dict[str, puP]")]},
    {"name": "target-named-like-an-imported-module-typeddict", "k": 3, "stratum": "tdbody", "targets": ["utils", "pkg.utils"],
     "spec": [("f0", {"a": "TD({'x': puP}, {})"}, "uB")], "co": [("f1", {"b": "TD({'y': uU}, {})"}, None)]},
    {"name": "typeddict-yielded", "k": 3, "spec": [("g0", {"a": "int"}, None, "TD({'x': int}, {})")]},
]


def run(ck):
    quick = ck.tier == "quick"
    n = core.NPROC
    builds = (12000 if quick else 100000) // n
    payloads = [{"id": f"{ck.seed}_{i}", "seed": f"C11:{ck.seed}:{i}", "builds": builds, "pinned": PINNED if i == 0 else []} for i in range(n)]
    for r in core.pmap("vf.props.c11:work", payloads, timeout=3400):
        ck.merge(r)
    ck.need("annotations_judged", 5000)
    ck.need("two_module_builds", 100)
    ck.need("builds_for_target_modules_named_like_imported_ones", 100)
    ck.need("source_annotations_handed_to_renderer", 300)
    ck.need("none_default_positions_judged", 300)
    ck.need("builds_through_store_and_cli", 200)
    ck.need("typeddict_builds_naming_checked", 500)
    ck.need("module_pairs", 15, "module pairs never co-occurring in one stub")
    ck.need("container_with_typeddict", 5, "container kind x contains-TypedDict cell never rendered")
    return ck.finish(
        rule="CallTraces with grammar types over user classes spread across modules whose names are dotted / textual suffixes of one another "
        "(utils, pkg.utils, foo, barfoo, shape.shape, a class named like its module, _io, mytyping) -> build_module_stubs_from_traces with the "
        "no-op rewriter -> render; every annotation string is evaluated with only the names the stub provides and compared structurally "
        "with the type handed in. distinct = (stratum, k, shapes of the first types of the build)",
        assumptions=["one trace per function and the no-op rewriter make the handed-in type exactly the trace's type",
                     "vf/oracle/stubeval.py is the reference reading of stub text"],
    )


def replay(ck, path):
    data = json.load(open(path))
    pins = []
    for c in data.get("cases", []):
        w = c.get("witness") or {}
        if "spec" in w:
            pins.append({"spec": [tuple(x) for x in w["spec"]], "k": w["k"], "stratum": w.get("stratum", "main"), "name": "replay", "co": w.get("co_spec"),
                         "targets": w.get("targets")})
    ck.merge(work({"id": "replay", "seed": "replay", "builds": 0, "pinned": pins}))
    return ck.finish(rule="replay of " + path)
