"""C05 - inferred types are tight."""
from vf.props import infer
from vf.props.c04 import infer_replay


def run(ck):
    infer.run_prop(ck, "C05", infer.KS_FULL)
    ck.need("union_nodes_walked", 1000)
    ck.need("td_nodes_walked", 300)
    ck.need("any_nodes_walked", 100)
    return ck.finish(
        rule=infer.RULES["C05"],
        assumptions=["tightness is decided by the witness walk in vf/oracle/witness.py, before any rewriter"],
    )


def replay(ck, path):
    return infer_replay(ck, path, "C05")
