"""C06 - the TypedDict size limit is honoured end to end; zero disables TypedDicts."""
from vf.props import infer
from vf.props.c04 import infer_replay

KS = [0, 1, 2, 3, 10]


def run(ck):
    infer.run_prop(ck, "C06", KS)
    ck.need("td_nodes_seen", 2000)
    ck.need("dict_at_limit", 100, "no dict at size exactly k")
    ck.need("dict_over_limit_by_one", 100, "no dict at size k+1")
    ck.need("merged_keyset_over_limit", 100, "no merged key-set exceeding k")
    ck.need("nonstr_key_dict", 100)
    return ck.finish(rule=infer.RULES["C06"], assumptions=["which dicts may become TypedDicts is the statement itself: all keys str, 1 <= size <= k"])


def replay(ck, path):
    return infer_replay(ck, path, "C06")
