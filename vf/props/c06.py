"""C06 - the TypedDict size limit is honoured end to end; zero disables TypedDicts."""
from vf.props import infer
from vf.props.c04 import infer_replay

KS = [0, 1, 2, 3, 10]


def run(ck):
    infer.run_prop(ck, "C06", KS)
    if ck.tier == "thorough":
        infer.suite_as_workload(ck, "C06")
    # end to end: run -> store rows -> stub classes, through the real CLI (shared worker with C01)
    from vf import core
    from vf.props import c01

    specs = c01.C06_PINNED + c01.program_specs(ck, 24 if ck.tier == "quick" else 300, prop="C06", full=False)
    n = min(core.NPROC, len(specs))
    for r in core.pmap("vf.props.c01:work", [{"programs": specs[i::n]} for i in range(n)], timeout=3400):
        if r is None or "harness_error" in r or "mt_exception" in r:
            ck.merge(r)
        else:
            ck.merge(r["C06"])
    # several tracing blocks in one interpreter sharing a logger / a Config object while the limit changes (larger limits first)
    from vf.props import sessions

    sessions.run_into(ck, "C06", 32 if ck.tier == "quick" else 400)
    ck.need("session_traces_scanned", 500)
    ck.need("session_typeddict_nodes", 200)
    ck.need("stored_rows_scanned", 1000)
    ck.need("pinned_shape_programs", 1)
    ck.need("stored_typeddict_nodes", 100)
    ck.need("stub_typeddict_classes", 50)
    ck.need("td_nodes_seen", 2000)
    ck.need("dict_at_limit", 100, "no dict at size exactly k")
    ck.need("dict_over_limit_by_one", 100, "no dict at size k+1")
    ck.need("merged_keyset_over_limit", 100, "no merged key-set exceeding k")
    ck.need("nonstr_key_dict", 100)
    return ck.finish(rule=infer.RULES["C06"] + "; end to end: generated programs run through `monkeytype run` at each k, every stored row scanned for TypedDict nodes through an independent sqlite3 connection, every `class ...(TypedDict)` of the stubs measured against k; sessions of 6 tracing blocks in one interpreter (trace_calls with one logger, monkeytype.trace with one Config object) whose limit changes per block: every logged trace against the limit of its block", assumptions=["which dicts may become TypedDicts is the statement itself: all keys str, 1 <= size <= k"])


def replay(ck, path):
    import json

    data = json.load(open(path))
    specs = [c["witness"]["spec"] for c in data.get("cases", []) if c.get("witness") and "spec" in c["witness"]]
    if specs:
        from vf.props import c01

        ck.merge(c01.work({"programs": specs})["C06"])
        return ck.finish(rule="replay of " + path)
    return infer_replay(ck, path, "C06")
