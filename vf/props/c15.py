"""C15 - apply only adds annotations and imports; the program is otherwise untouched.  DESIGN 6 C15."""
import itertools
import json

from vf import core
from vf.gen import sources as gs
from vf.props import applyrun


def specs(ck, n, prop, configs):
    out = []
    styles = [s["name"] for s in gs.IMPORT_STYLES]
    # every import style meets every forced feature in turn (the first rounds are the ones whose absence made seeded changes slip through)
    rotate = ["dict-with-class-field", "deep-nested-class", "settings", "posonly-star", "nested-class", "typing-named-module",
              "noncanonical-partial-annotations", "alias-annotations", "typing", "type-checking-try", None]
    rotate.insert(1, "type-checking-block-duplicates-runtime-import")
    rotate.insert(2, "same-named-nested-classes")
    for i in range(n):
        f = rotate[(i // len(styles)) % len(rotate)]
        out.append({"name": f"vfsrc_{prop.lower()}_{ck.seed}_{i}", "seed": f"{prop}:{ck.seed}:{i}", "style": styles[i % len(styles)], "configs": configs,
                    "cli": i % 3 == 0, "cli_confine": prop == "C16" or i % 6 == 0, "force": [f] if f else None})
    # pinned witnesses of the listed findings (forced features), first in both tiers
    pins = [
        {"name": f"vfsrc_{prop.lower()}_pin_local_{ck.seed}", "seed": f"{prop}:pin:1", "style": "function-local-import", "configs": configs, "cli": False},
        {"name": f"vfsrc_{prop.lower()}_pin_nested_{ck.seed}", "seed": f"{prop}:pin:2", "style": "plain-import", "configs": configs, "cli": False, "force": ["nested-class"]},
        {"name": f"vfsrc_{prop.lower()}_pin_typing_{ck.seed}", "seed": f"{prop}:pin:3", "style": "aliased-module", "configs": configs, "cli": False, "force": ["typing", "settings"]},
        {"name": f"vfsrc_{prop.lower()}_pin_star_{ck.seed}", "seed": f"{prop}:pin:4", "style": "mixed", "configs": configs, "cli": False},
    ]
    # a star import that is not part of the leading import block (a statement precedes it) while a class it provides is traced
    pins.append({"name": f"vfsrc_{prop.lower()}_pin_latestar_{ck.seed}", "seed": f"{prop}:pin:9", "style": "mixed", "configs": configs, "cli": prop == "C16",
                 "cli_confine": True, "force": ["existing-type-checking-block", "none-default"]})
    # combinations earlier seeded changes needed (kept deterministic: a detection resting on a few random sources is a miss waiting to happen)
    for j, (style, force) in enumerate([("function-local-from-import", ["module-code", "squares", "decorated"]), ("aliased-from-import", ["noncanonical-partial-annotations", "none-default"]),
                                        ("aliased-module", ["noncanonical-partial-annotations", "all-param-kinds"]), ("function-local-import", ["generator", "module-code"]),
                                        # the stub brings nothing new to confine while the source binds / uses TYPE_CHECKING itself
                                        ("plain-import", ["package-and-submodule-classes", "typevar-annotation"]), ("from-import", ["typevar-annotation", "package-and-submodule-classes", "settings"]),
                                        ("from-import", ["type-checking-try", "none-default"]), ("from-import", ["existing-type-checking-block", "decorated"])]):
        pins.append({"name": f"vfsrc_{prop.lower()}_pin_combo{j}_{ck.seed}", "seed": f"{prop}:pin:combo{j}", "style": style, "configs": configs, "cli": True,
                     "cli_confine": prop == "C16", "force": force,
                     "forbid": ["existing-type-checking-block", "typing-named-module", "typing"] if "type-checking-try" in force else None})
    verbose = ("import typing\n\n\ndef total(values: typing.Optional[typing.Union[typing.List[int], typing.Tuple[int, ...]]] = None, "
               "start: typing.Optional[typing.Union[int, float, complex]] = 0) -> typing.Optional[typing.Union[int, float, complex]]:\n"
               "    return sum(values or []) + start\n\n\ndef label(n: typing.Union[int, str, bytes, None] = 1) -> typing.Union[str, bytes, None]:\n"
               "    return str(n)\n\n\ndef workload():\n    return [total([1, 2], 1), total([3]), label(2), label()]\n")
    pins.append({"name": f"vfsrc_{prop.lower()}_pin_verbose_{ck.seed}", "seed": f"{prop}:pin:5", "style": "plain-import", "configs": configs[:2], "cli": True,
                 "cli_ignore": True, "literal_source": verbose})
    pins.append({"name": f"vfsrc_{prop.lower()}_pin_compound_{ck.seed}", "seed": f"{prop}:pin:6", "style": "plain-import", "configs": configs, "cli": True,
                 "cli_confine": prop == "C16", "force": ["optional-union", "class-in-compound-statement"]})
    # a module whose traced types are builtins and itself only: the stub imports typing names alone; annotations refer to the class being defined
    selfref = ("class Node:\n    def __init__(self, value, parent=None):\n        self.value = value\n        self.parent = parent\n\n"
               "    def chain(self, nodes):\n        return [n.value for n in nodes]\n\n    def root(self):\n        return self.parent.root() if self.parent else self\n\n"
               "    def pick(self, other=None, label=None):\n        return other or self\n\n\n"
               "def workload():\n    a = Node(1)\n    b = Node('s', a)\n    return [b.chain([a, b]), b.root().value, a.pick().value, a.pick(b, 'x').value, a.pick(None, 3).value]\n")
    # the only union of the module sits inside an Optional
    optunion = ("def coerce(v, fallback=None):\n    return fallback if v is None else v\n\n\n"
                "def workload():\n    return len([coerce(1), coerce('s'), coerce(None), coerce(None, 2.5)])\n")
    pins.append({"name": f"vfsrc_{prop.lower()}_pin_optunion_{ck.seed}", "seed": f"{prop}:pin:8", "style": "plain-import", "configs": configs, "cli": True,
                 "cli_confine": prop == "C16", "literal_source": optunion})
    # a module that declares a source encoding other than UTF-8 (its bytes happen to be valid UTF-8 as well) and holds non-ASCII text:
    # the file rewritten by the command must still spell the same constants and comments
    coded = ("# -*- coding: latin-1 -*-\n# commentaire: d\u00e9j\u00e0 vu\nLABEL = 'caf\u00e9 '\n\n\ndef greet(name, times=1):\n    return LABEL + name * times  # \u00e9t\u00e9\n\n\n"
             "def workload():\n    return [len(greet('x')), len(greet('y', 2))]\n")
    pins.append({"name": f"vfsrc_{prop.lower()}_pin_coding_{ck.seed}", "seed": f"{prop}:pin:10", "style": "plain-import", "configs": configs[:2], "cli": True,
                 "cli_confine": prop == "C16", "literal_source": coded})
    if prop == "C16":
        # (without confinement the applied module cannot be imported - `nodes: List[Node]` inside `class Node` - which no property demands)
        pins.append({"name": f"vfsrc_{prop.lower()}_pin_selfref_{ck.seed}", "seed": f"{prop}:pin:7", "style": "plain-import", "configs": configs, "cli": True,
                     "cli_confine": True, "literal_source": selfref})
    return pins + out


def run(ck):
    quick = ck.tier == "quick"
    configs = [list(c) for c in itertools.product([False, True], [0, 3], [False, True])]
    sp = specs(ck, 30 if quick else 1500, "C15", configs)
    n = min(core.NPROC, len(sp))
    for r in core.pmap("vf.props.applyrun:work", [{"sources": sp[i::n], "prop": "C15"} for i in range(n)], timeout=3400):
        ck.merge(r)
    ck.need("stub_annotations_checked", 1500)
    ck.need("existing_annotations_checked", 50)
    ck.need("second_applications", 150)
    ck.need("results_executed", 150)
    ck.need("cli_applies", 5)
    ck.need("cli_results_shorter_than_source", 1, "no CLI apply whose result is shorter than the source")
    for f in ("alias-annotations", "partial-annotations", "decorated", "nested-def", "docstring", "future-import", "typing-import", "module-code", "nested-class"):
        ck.counters["feature:" + f] = 1 if f in ck.sets.get("source_features", ()) else 0
        ck.need("feature:" + f, 1, "source feature never generated")
    return ck.finish(
        rule="generated importable source modules (comments, decorators, nested defs, partial annotations, typing / __future__ imports, "
        "docstrings, class and module level code, six import styles for the helper modules used at run time) are traced for real; the stub "
        "is applied with apply_stub_using_libcst for overwrite x k in {0,3} x confinement {off,on} (and through the `apply` CLI): the result "
        "must parse, equal the original after erasing annotations / new imports / generated TypedDict classes, keep comments and existing "
        "annotations, contain every stub annotation for unannotated positions, be a fixed point of a second application, and run the "
        "workload with the same results in a fresh interpreter. distinct = (import style, features, configuration)",
        assumptions=["the transformation is libcst's; its output is judged, not assumed"],
    )


def replay(ck, path):
    data = json.load(open(path))
    sp = []
    for c in data.get("cases", []):
        w = c.get("witness") or {}
        if "spec" in w:
            s = dict(w["spec"])
            if "config" in w:
                s["configs"] = [w["config"]]
            sp.append(s)
    ck.merge(applyrun.work({"sources": sp, "prop": "C15"}))
    return ck.finish(rule="replay of " + path)
