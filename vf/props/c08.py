"""C08 - types and call traces survive serialisation unchanged.  DESIGN 6 C08."""
import itertools
import json
import random
import typing

from vf import core
from vf.gen import types as gt
from vf.gen import values as gv
from vf.oracle import rt as RT


def rebuild(T, reverse):
    """Independent structural copy: fresh TypedDict objects (optionally with reversed field insertion
    order), same union member order."""
    import monkeytype.typing as mt

    if RT._is_typeddict_meta(T) and T.__name__ == "DUMMY_NAME":
        req = T.__annotations__["required_fields"].__annotations__
        opt = T.__annotations__["optional_fields"].__annotations__
        ri = list(req.items())
        oi = list(opt.items())
        if reverse:
            ri.reverse()
            oi.reverse()
        return mt.make_typed_dict(required_fields={k: rebuild(v, reverse) for k, v in ri},
                                  optional_fields={k: rebuild(v, reverse) for k, v in oi})
    origin = typing.get_origin(T)
    args = typing.get_args(T)
    if origin is None or not args:
        return T
    if origin is typing.Union:
        return typing.Union[tuple(rebuild(a, reverse) for a in args)]
    new = tuple(a if a is Ellipsis else rebuild(a, reverse) for a in args)
    try:
        return T.copy_with(new)
    except Exception:
        return T


def canon(js):
    """JSON with the members of every Union sorted: typing's caches make member order an artefact of which equal
    union was built first, and the statement does not demand a canonical order.  Key order is preserved (it is judged)."""
    def walk(d):
        if isinstance(d, dict):
            d = {k: walk(v) for k, v in d.items()}
            if d.get("qualname") == "Union" and isinstance(d.get("elem_types"), list):
                d["elem_types"] = sorted(d["elem_types"], key=lambda x: json.dumps(x, sort_keys=True))
            return d
        if isinstance(d, list):
            return [walk(x) for x in d]
        return d
    return None if js is None else json.dumps(walk(json.loads(js)))


def kinds(term):
    ks = set()
    for t in RT.walk(term):
        ks.add(t[0])
        if t[0] == "tuple" and not t[1]:
            ks.add("empty_tuple")
        if t[0] in ("list", "set", "dict", "defaultdict", "tuple", "union", "type", "td") and any(c[0] == "td" for c in RT.children(t)):
            ks.add("td_under_" + t[0])
        if t[0] == "td" and t[2]:
            ks.add("td_optional")
        if t[0] == "cls" and "." in getattr(t[1], "__qualname__", ""):
            ks.add("nested_class")
        if t[0] == "type":
            ks.add("type_of_" + t[1][0])
    return ks


def judge_type(res, T, desc):
    import monkeytype.encoding as enc

    res.count("evaluations")
    term = RT.to_rt(T)
    if RT.has_unknown(term):
        res.count("skipped_unknown_input")
        return
    for kd in kinds(term):
        res.seen("kinds_encoded", kd)
    res.shape(RT.shape(term))
    wit = {"type": desc}
    try:
        js = enc.type_to_json(T)
    except Exception as e:
        res.violation(f"encode-raises:{type(e).__name__}", f"type_to_json({desc}) raised {e!r}", wit)
        return
    try:
        back = enc.type_from_json(js)
    except Exception as e:
        res.violation(f"decode-raises:{type(e).__name__}", f"type_from_json(type_to_json({desc})) raised {e!r}; json={js[:300]}", wit)
        return
    bterm = RT.to_rt(back)
    res.count("roundtrips")
    if bterm != term:
        res.violation("roundtrip-differs", f"{desc}: {RT.show(term)} decoded as {RT.show(bterm)}", wit)
        return
    # encoding is a function of structure
    try:
        again = enc.type_to_json(T)
        j1 = enc.type_to_json(rebuild(T, False))
        j2 = enc.type_to_json(rebuild(T, True))
        j3 = enc.type_to_json(back)
    except Exception as e:
        res.violation(f"encode-raises:{type(e).__name__}", f"re-encoding {desc} raised {e!r}", wit)
        return
    res.count("structure_judgements", 4)
    if again != js:
        res.violation("encoding-not-deterministic", f"{desc}: two encodings of one object differ", wit)
    elif canon(j1) != canon(js):
        res.violation("encoding-depends-on-identity", f"{desc}: structurally identical copy encodes differently", wit)
    elif canon(j2) != canon(js):
        res.violation("encoding-depends-on-field-order", f"{desc}: copy with permuted TypedDict field insertion order encodes differently", wit)
    elif RT.to_rt(enc.type_from_json(j3)) != term:
        res.violation("second-roundtrip-differs", f"{desc}", wit)
    res.sample({"type": desc, "json": js[:200]}, cap=2)


INFERABLE_EXCLUDE = ("Generator[", "Iterator[")


def inferable_expr(e):
    s = e.replace("Iterator[Any]", "")
    return "Generator[" not in s and "Iterator[" not in s


def judge_trace(res, fname, arg_types, ret, yld, desc, store=None):
    import monkeytype.encoding as enc
    from monkeytype.tracing import CallTrace
    from vf.fixtures import funcs

    res.count("evaluations")
    res.count("trace_roundtrips")
    func = funcs.FUNCS[fname]
    t = CallTrace(func, arg_types, ret, yld)
    wit = {"trace": desc}
    try:
        row = enc.CallTraceRow.from_trace(t)
        if store is not None:
            store.add([t])
            rows = [r for r in store.filter("vf.fixtures.funcs", func.__qualname__, 100000) if r == row]
            if len(rows) != 1:
                res.violation("store-roundtrip-row-missing", f"{desc}: {len(rows)} matching rows after add/filter", wit)
                return
            row = rows[0]
        back = row.to_trace()
    except Exception as e:
        res.violation(f"trace-roundtrip-raises:{type(e).__name__}", f"{desc}: {e!r}", wit)
        return
    res.seen("function_kinds", fname)
    res.seen("ret_yield_states", f"ret={'absent' if ret is None else ('NoneType' if ret is type(None) else 'type')},"
                                 f"yield={'absent' if yld is None else ('NoneType' if yld is type(None) else 'type')}")
    if back.func is not func:
        res.violation("trace-function-differs", f"{desc}: decoded {back.func!r}, expected {func!r}", wit)
        return
    if set(back.arg_types) != set(arg_types) or any(RT.to_rt(back.arg_types[k]) != RT.to_rt(v) for k, v in arg_types.items()):
        res.violation("trace-argtypes-differ", f"{desc}: {back.arg_types!r}", wit)
        return
    for name, a, b in (("return", ret, back.return_type), ("yield", yld, back.yield_type)):
        if (a is None) != (b is None):
            res.violation(f"trace-{name}-absence-confused", f"{desc}: {name} {a!r} decoded as {b!r}", wit)
            return
        if a is not None and RT.to_rt(a) != RT.to_rt(b):
            res.violation(f"trace-{name}-differs", f"{desc}: {name} {a!r} decoded as {b!r}", wit)
            return
    # encoding of a trace is a function of its structure: an independently built, structurally identical trace
    # (fresh TypedDict objects, reversed field and argument insertion order) must serialise to an equal row
    try:
        t2 = CallTrace(func, {n: rebuild(arg_types[n], True) for n in reversed(list(arg_types))},
                       None if ret is None else rebuild(ret, True), None if yld is None else rebuild(yld, True))
        row2 = enc.CallTraceRow.from_trace(t2)
        row1 = enc.CallTraceRow.from_trace(t)
        res.count("row_structure_judgements")

        same = all(canon(getattr(row1, c)) == canon(getattr(row2, c)) for c in ("arg_types", "return_type", "yield_type")) and \
            (row1.module, row1.qualname) == (row2.module, row2.qualname)
        if not same:
            cols = [c for c in ("arg_types", "return_type", "yield_type") if getattr(row1, c) != getattr(row2, c)]
            a, b = getattr(row1, cols[0]) or "", getattr(row2, cols[0]) or ""
            i = next((j for j, (x, y) in enumerate(zip(a, b)) if x != y), 0)
            res.violation("trace-row-encoding-depends-on-insertion-order",
                          f"{desc}: structurally identical traces serialise to different rows ({cols}): ...{a[max(0, i - 60):i + 60]} vs ...{b[max(0, i - 60):i + 60]}", wit)
    except Exception as e:
        res.violation(f"trace-roundtrip-raises:{type(e).__name__}", f"{desc}: {e!r}", wit)
    res.shape("trace|" + fname + "|" + str(ret is None) + str(yld is None) + "|" + ",".join(sorted(RT.shape(RT.to_rt(v)) for v in arg_types.values())))


def hostile_history(res):
    """Decodes that must fail, made BEFORE the round trips of this interpreter: names that are textual prefixes of the fixture
    modules / classes / functions, and a module that becomes importable only after its first failed look-up.  Whatever the
    decoder remembers about failures must not leak into later, valid look-ups."""
    import importlib
    import os
    import sys

    import monkeytype.encoding as enc
    from monkeytype.exceptions import MonkeyTypeError

    # a class that merely shares module and qualified name with an importable one is ENCODED first (encoding succeeds for any class);
    # decoding that text must still go by the name, i.e. give the importable class
    from vf.fixtures import hier

    try:
        text = enc.type_to_json(hier.Dup1)
        for _ in range(2):
            T = enc.type_from_json(text)
            if T is not hier.Dup:
                res.violation("roundtrip-differs", f"{text} decodes to {T!r} (id {id(T)}), the importable object of that name is {hier.Dup!r} (id {id(hier.Dup)})", {"namesake": True})
        T = enc.type_from_json(enc.type_to_json(hier.Dup2))
        if T is not hier.Dup2:
            res.violation("roundtrip-differs", "an importable class decodes to its non-importable namesake that was encoded earlier", {"namesake": True})
        res.count("namesake_roundtrips")
    except Exception as e:
        res.violation(f"decode-raises:{type(e).__name__}", f"namesake classes: {e!r}", {"namesake": True})
    d = core.scratch("c08late")
    late = "vflate_%d" % os.getpid()
    probes = [("vf.fixtures.hie", "A"), ("vf.fixtures.h", "A"), ("vf.fixtures.func", "plain"), ("vf.fixtures", "hie"), ("vf.fixtures.hier", "Oute"),
              ("vf.fixtures.hier", "Outer.Inn"), ("vf.fixtures.funcs", "K.met"), ("vf.fixtures.funcs", "K.Inner.Dee.meth"), ("builtin", "int"), ("typin", "List"),
              (late, "Late"), ("collection", "defaultdict")]
    for module, qual in probes:
        res.count("hostile_lookups")
        try:
            enc.type_from_dict({"module": module, "qualname": qual})
            res.violation("decode-of-missing-name-succeeds", f"type_from_dict({module}.{qual}) returned a type", {"module": module, "qualname": qual})
        except MonkeyTypeError:
            res.count("hostile_lookups_rejected")
        except Exception as e:
            res.violation(f"decode-of-missing-name-raises:{type(e).__name__}", f"{module}.{qual}: {e!r}", {"module": module, "qualname": qual})
        try:
            enc.CallTraceRow(module, qual, "{}", None, None).to_trace()
        except MonkeyTypeError:
            pass
        except Exception as e:
            res.violation(f"decode-of-missing-name-raises:{type(e).__name__}", f"row {module}:{qual}: {e!r}", {"module": module, "qualname": qual})
    # the module of the failed look-up appears afterwards (a package installed / a file written while the process lives)
    open(os.path.join(d, late + ".py"), "w").write("class Late:\n    pass\n\n\ndef late_fn(a):\n    return a\n")
    sys.path.insert(0, d)
    importlib.invalidate_caches()
    try:
        mod = importlib.import_module(late)
        from monkeytype.tracing import CallTrace

        T = enc.type_from_dict(enc.type_to_dict(mod.Late))
        if T is not mod.Late:
            res.violation("roundtrip-differs", f"class of a module that appeared after a failed look-up decodes to {T!r}", {"late": True})
        tr = enc.CallTraceRow.from_trace(CallTrace(mod.late_fn, {"a": mod.Late}, mod.Late)).to_trace()
        if tr.func is not mod.late_fn:
            res.violation("trace-function-differs", "function of a module that appeared after a failed look-up", {"late": True})
        res.count("late_module_roundtrips")
        # the module is edited and reloaded: the name now denotes a new class and a new function
        open(os.path.join(d, late + ".py"), "w").write("class Late:\n    v = 2\n\n\ndef late_fn(a, b=0):\n    return a\n")
        os.utime(os.path.join(d, late + ".py"), (1, 1))
        importlib.invalidate_caches()
        old_cls = mod.Late
        mod = importlib.reload(mod)
        T = enc.type_from_json(enc.type_to_json(mod.Late))
        if T is not mod.Late or T is old_cls:
            res.violation("roundtrip-differs", "after a reload the class decodes to the object of the old definition", {"late": True, "reload": True})
        tr = enc.CallTraceRow.from_trace(CallTrace(mod.late_fn, {"a": mod.Late}, mod.Late, mod.Late)).to_trace()
        if tr.func is not mod.late_fn or tr.return_type is not mod.Late or tr.yield_type is not mod.Late:
            res.violation("trace-roundtrip-differs", "after a reload a trace decodes to objects of the old definition", {"late": True, "reload": True})
        res.count("reload_roundtrips")
    except Exception as e:
        res.violation(f"decode-raises:{type(e).__name__}", f"module that appeared after a failed look-up: {e!r}", {"late": True})
    finally:
        sys.path.remove(d)
        sys.modules.pop(late, None)


def work(p):
    import monkeytype.typing as mt
    from monkeytype.db.sqlite import SQLiteStore
    from vf.fixtures import funcs

    rng = random.Random(p["seed"])
    res = core.Res()
    hostile_history(res)
    pool = []
    for expr in p.get("exprs", ()):
        T = gt.ev(expr)
        pool.append(T)
        judge_type(res, T, expr)
    for _ in range(p.get("random", 0)):
        expr = gt.gen_type(rng) if rng.random() < 0.6 else gt.gen_union(rng)
        if not inferable_expr(expr):
            res.count("skipped_not_inferable")
            continue
        T = gt.ev(expr)
        pool.append(T)
        judge_type(res, T, expr)
    rws = [mt.RemoveEmptyContainers(), mt.RewriteConfigDict(), mt.RewriteMostSpecificCommonBase(), mt.RewriteLargeUnion(2)]
    for exprs, k in p.get("inferred", ()):
        vals = [gv.ev(e) for e in exprs]
        try:
            T = mt.shrink_types([mt.get_type(v, k) for v in vals], k)
        except Exception:
            res.count("inference_failed")
            continue
        res.count("inferred_inputs")
        pool.append(T)
        judge_type(res, T, f"inferred(k={k}) from {exprs}")
        for rw in rws:
            try:
                R = rw.rewrite(T)
            except Exception:
                continue
            rt_r = RT.to_rt(R)
            if rt_r != RT.to_rt(T) and not any(t[0] in ("tuplevar",) for t in RT.walk(rt_r)) and rt_r != RT.ANY:
                res.count("rewritten_inputs")
                judge_type(res, R, f"{type(rw).__name__}(inferred(k={k}) from {exprs})")
    # call traces
    store = SQLiteStore.make_store(":memory:")
    names = sorted(funcs.FUNCS)
    NoneType = type(None)
    for i in range(p.get("traces", 0)):
        fname = names[i % len(names)]
        argn = rng.choice([0, 1, 2])
        # parameter names include the words the JSON encoding itself uses as keys (the argument table is a JSON object keyed by them)
        argnames = rng.sample(["a0", "a1", "module", "qualname", "elem_types", "is_typed_dict", "self"], argn)
        arg_types = {nm: rng.choice(pool) if pool else int for nm in argnames}
        from vf.fixtures import hier

        ret = rng.choice([None, NoneType, rng.choice(pool) if pool else int, hier.Registry])
        yld = rng.choice([None, None, NoneType, rng.choice(pool) if pool else str, hier.Registry])
        # arg types are used as dict values and set members in CallTrace.__hash__: TypedDict types are fine
        desc = f"{fname} args={ {k: repr(v)[:60] for k, v in arg_types.items()} } ret={ret!r:.60} yield={yld!r:.60}"
        judge_trace(res, fname, arg_types, ret, yld, desc, store if i % 3 == 0 else None)
    return res.out()


def run(ck):
    quick = ck.tier == "quick"
    rs = ck.rng("c08")
    exprs = [e for e in gt.enumerate_upto(3 if quick else 4) if inferable_expr(e)]
    if quick:
        exprs += rs.sample([e for e in gt.of_size(4) if inferable_expr(e)], 2500)
    inferred = []
    ms = [list(m) for m in gv.multisets(2)]
    for m in (rs.sample(ms, 1500) if quick else ms):
        inferred.append([m, rs.choice([0, 1, 3, 10, 200])])
    for i in range(7500 if quick else 120000):
        inferred.append([gv.gen_multiset(rs), rs.choice([0, 1, 2, 3, 10, 200])])
    n = core.NPROC * (2 if quick else 8)
    nrandom = 12000 if quick else 200000
    ntr = 9000 if quick else 60000
    payloads = [{"exprs": exprs[i::n], "inferred": inferred[i::n], "random": nrandom // n, "traces": ntr // n, "seed": f"C08:{ck.seed}:{i}"}
                for i in range(n)]
    for r in core.pmap("vf.props.c08:work", payloads, timeout=3400):
        ck.merge(r)
    if ck.tier == "thorough":
        from vf.props import infer

        infer.suite_as_workload(ck, "C08")
    have = ck.sets.get("kinds_encoded", set())
    for kd in ("defaultdict", "type", "iterator", "callable", "empty_tuple", "td", "td_optional", "td_under_list", "td_under_dict",
               "td_under_tuple", "td_under_td", "union", "nested_class", "type_of_none", "set"):
        ck.counters["kind:" + kd] = 1 if kd in have else 0
        ck.need("kind:" + kd, 1, "generic kind of the quantifier never encoded")
    ck.need("roundtrips", 8000)
    ck.need("hostile_lookups_rejected", 100)
    ck.need("late_module_roundtrips", 10)
    ck.need("reload_roundtrips", 10)
    ck.need("namesake_roundtrips", 10)
    ck.need("trace_roundtrips", 2000)
    ck.need("function_kinds", 18)
    ck.need("ret_yield_states", 9)
    return ck.finish(
        rule="types: inferable grammar expressions (complete to the node bound, sampled beyond), types inferred from value multisets "
        "at k in {0,1,2,3,10,200} and their rewritten forms; CallTraces over 15 fixture functions of every kind with return/yield "
        "absent/NoneType/type, every third one through an SQLite store as well. distinct = structure of the type / trace",
        assumptions=["structural equality per vf/oracle/rt.py; union member order is not demanded to be canonical",
                     "Tuple[T, ...] and Generator/Iterator[T] are outside the statement's domain (never inferred from values)"],
    )


def replay(ck, path):
    data = json.load(open(path))
    res = core.Res()
    for case in data.get("cases", []):
        d = (case["witness"] or {}).get("type")
        if d and not d.startswith(("inferred", "Re")):
            judge_type(res, gt.ev(d), d)
    ck.merge(res.out())
    return ck.finish(rule="replay of " + path)
