"""C04 - inferred types admit every observed value, for every TypedDict size limit."""
from vf.props import infer


def run(ck):
    infer.run_prop(ck, "C04", infer.KS_FULL)
    if ck.tier == "thorough":
        infer.suite_as_workload(ck, "C04")
    for p in ("path_typed_dict_merge", "path_all_equal", "path_all_lists", "path_mixed", "path_oversize_fallback", "path_empty"):
        ck.need(p, 50, "shrink_types path never (or hardly) reached")
    ck.need("membership_judgements", 20000)
    ck.need("permutation_judgements", 20000)
    return ck.finish(
        rule=infer.RULES["C04"],
        assumptions=[
            "membership is decided by the reference conformance oracle (vf/oracle/conform.py), structural equality by vf/oracle/rt.py",
            "cyclic containers are outside the value grammar",
        ],
    )


def replay(ck, path):
    return infer_replay(ck, path, "C04")


def infer_replay(ck, path, prop):
    import json
    import random

    from vf import core

    data = json.load(open(path))
    res = {p: core.Res() for p in ("C04", "C05", "C06")}
    for case in data.get("cases", []):
        w = case["witness"]
        infer.judge_case(res, w["values"], w["k"], random.Random(0))
    ck.merge(res[prop].out())
    return ck.finish(rule="replay of " + path)
