"""C09 - the trace store returns exactly what was added: deduplicated, filtered, bounded; batches atomic.
DESIGN 6 C09.  Parts: (1) histories vs a reference model, (2) unserialisable traces, (3) concurrent
writer/reader processes, (4) crash/fault points (progress-handler abort, SIGKILL at VM steps, strace syscall injection)."""
import itertools
import json
import os
import random
import shutil
import signal
import sqlite3
import subprocess
import sys
import time

from vf import core

MODULES = ["m", "M", "m2"]
# names that collide under case folding, under LIKE wildcards (_ %), and under GLOB wildcards (* ? [...]) and regex metacharacters
QUALNAMES = ["my_func", "myXfunc", "MY_FUNC", "my", "Foo.bar", "Foo.baz", "foo", "a%b", "aXYb", "a_b", "Foo", "my_func2",
             "Box[int].get", "Boxi", "is_ok?", "is_okay", "a*b", "a.b",
             # identifiers beyond ASCII / Latin-1 (PEP 3131): the character after a prefix may sort above any sentinel a range scan might use
             "Foo.\u03bb_max", "caf\u0113.run", "\u03a9mega", "my_func\u00ff", "my_func\U0001d4b3", "Foo.\u00e9", "\u540d\u524d.get", "a\uffff"]
PREFIXES = [None, "", "my_func", "my_", "my", "foo", "Foo", "Foo.", "a%b", "a", "MY", "%", "_", "a_", "f",
            "Box[int]", "Box[", "Box", "is_ok?", "a*", "*", "?", "[", "a.", "a.b", "caf", "Foo.\u03bb", "\u03a9", "my_func\u00ff", "\u540d", "caf\u0113."]
LIMITS = [1, 2, 1000]
QMODULES = MODULES + ["zz", "%", "m_"]


class F:
    """Synthetic function object: the store reads only __module__ and __qualname__."""

    def __init__(self, module, qualname):
        self.__module__ = module
        self.__qualname__ = qualname


class BadType:
    """Not a type: encoding it raises (unserialisable trace)."""


_FUNCS = {}


def fn(module, qualname):
    """One function object per (module, qualname), as in a traced program: the good and the unserialisable
    traces of one function share it."""
    key = (module, qualname)
    if key not in _FUNCS:
        _FUNCS[key] = F(module, qualname)
    return _FUNCS[key]


def mk_trace(module, qualname, payload=0, bad=False):
    from monkeytype.tracing import CallTrace

    if bad:
        # unserialisable at the top level, or inside a generic (the encoder fails half-way through the type), in any position
        import typing

        kinds = [lambda: {"x": BadType()}, lambda: {"x": typing.Tuple[int, ...]}, lambda: {"x": typing.Dict[str, typing.Tuple[int, ...]], "y": int},
                 lambda: {"y": int, "x": typing.List[typing.Tuple[str, ...]]}, lambda: {"x": typing.Optional[typing.Tuple[int, ...]]}]
        at = kinds[(len(qualname) + payload) % len(kinds)]()
        if (len(module) + payload) % 3 == 1:
            return CallTrace(fn(module, qualname), {"ok": int}, at["x"], None)
        if (len(module) + payload) % 3 == 2:
            return CallTrace(fn(module, qualname), {"ok": int}, None, at["x"])
        return CallTrace(fn(module, qualname), at, None, None)
    if payload >= 2000:
        # ... and differ only in the ORDER in which a union's members were first seen: equal as types, different as stored rows
        return CallTrace(fn(module, qualname), {"pY": int}, None, _union_yield(payload))
    if payload >= 1000:
        # traces of one (generator) function that agree in arguments and return type and differ only in what was yielded
        return CallTrace(fn(module, qualname), {"pY": int}, None, _YIELDS[payload % len(_YIELDS)])
    arg_types = {f"p{payload}": int}
    ret = [None, int, type(None)][payload % 3]
    return CallTrace(fn(module, qualname), arg_types, ret, None)


_YIELDS = [int, str, bytes, type(None)]


_UNION_ORDERS = [(int, str), (str, int), (int, str, bytes), (bytes, int, str), (str, bytes, int), (type(None), int), (int, type(None))]


def _union_yield(payload):
    import typing

    return typing.Union[_UNION_ORDERS[payload % len(_UNION_ORDERS)]]


def expected_row(module, qualname, payload):
    """Independent of monkeytype.encoding: what identifies the row (module, qualname, payload name)."""
    if payload >= 2000:
        return (module, qualname, "pY:Union[" + ",".join(t.__qualname__ for t in _UNION_ORDERS[payload % len(_UNION_ORDERS)]) + "]")
    if payload >= 1000:
        return (module, qualname, "pY:" + _YIELDS[payload % len(_YIELDS)].__qualname__)
    return (module, qualname, f"p{payload}")


def row_key(r):
    """CallTraceRow / raw row -> (module, qualname, payload-name)."""
    arg = json.loads(r[2] if isinstance(r, tuple) else r.arg_types)
    names = sorted(arg)
    mod = r[0] if isinstance(r, tuple) else r.module
    qn = r[1] if isinstance(r, tuple) else r.qualname
    name = names[0] if names else ""
    if name == "pY":
        y = r[3] if isinstance(r, tuple) else r.yield_type
        yd = json.loads(y) if y else None
        name += ":" + ("None-absent" if yd is None else yd["qualname"] + ("[" + ",".join(e["qualname"] for e in yd["elem_types"]) + "]" if "elem_types" in yd else ""))
    return (mod, qn, name)


class Model:
    def __init__(self):
        self.rows = set()

    def add(self, specs):
        for s in specs:
            if not s[3]:
                self.rows.add(expected_row(s[0], s[1], s[2]))

    def matching(self, m, p):
        return {r for r in self.rows if r[0] == m and (p is None or r[1].startswith(p))}

    def modules(self):
        return {r[0] for r in self.rows}


def classify_filter(m, p, got_keys, exp):
    """Mechanism of a filter discrepancy."""
    extra = got_keys - exp
    missing = exp - got_keys
    if extra and not missing:
        if all(r[0] == m for r in extra):
            lowers = all(r[1].lower().startswith(p.lower()) for r in extra) if p is not None else False
            if lowers:
                return "filter-prefix-case-folded"
            if p is not None and ("_" in p or "%" in p):
                return "filter-prefix-wildcard"
            return "filter-returns-nonmatching-qualname"
        return "filter-returns-other-module"
    if missing and not extra:
        return "filter-misses-rows"
    return "filter-wrong-rows"


def check_queries(res, store, model, queries, ctx):
    for m, p, n in queries:
        res.count("filter_judgements")
        try:
            got = store.filter(m, p, n)
        except Exception as e:
            res.violation(f"filter-raises:{type(e).__name__}", f"filter({m!r},{p!r},{n}) raised {e!r} after {ctx}", {"history": ctx, "query": [m, p, n]})
            continue
        keys = [row_key(r) for r in got]
        exp = model.matching(m, p)
        wit = {"history": ctx, "query": [m, p, n], "got": sorted(keys), "expected": sorted(exp)}
        if len(set(keys)) != len(keys):
            res.violation("filter-duplicates", f"filter({m!r},{p!r},{n}) returned duplicate rows", wit)
            continue
        d = len(exp)
        if n >= 1000:
            if set(keys) != exp:
                res.violation(classify_filter(m, p, set(keys), exp), f"filter({m!r},{p!r},{n}) = {sorted(set(keys) - exp)} extra, {sorted(exp - set(keys))} missing", wit)
        else:
            bad = set(keys) - exp
            if bad:
                res.violation(classify_filter(m, p, set(keys), exp | (set(keys) & exp)), f"filter({m!r},{p!r},{n}) returned rows outside the match set: {sorted(bad)}", wit)
            elif len(keys) != min(n, d):
                res.violation("filter-wrong-count", f"filter({m!r},{p!r},{n}) returned {len(keys)} rows, expected min({n},{d})", wit)
    res.count("list_modules_judgements")
    try:
        mods = store.list_modules()
    except Exception as e:
        res.violation(f"list_modules-raises:{type(e).__name__}", f"{e!r} after {ctx}", {"history": ctx})
        return
    if len(mods) != len(set(mods)) or set(mods) != model.modules():
        res.violation("list_modules-wrong", f"list_modules() = {mods}, expected {sorted(model.modules())}", {"history": ctx})


ALL_QUERIES = [(m, p, n) for m in QMODULES for p in PREFIXES for n in LIMITS]

BATCHES = [
    [("m", "my_func", 0, False), ("m", "myXfunc", 0, False), ("m", "MY_FUNC", 0, False)],
    [("m", "Foo.bar", 0, False), ("m", "foo", 0, False), ("M", "my_func", 0, False), ("m", "my_func", 1, False)],
    [("m", "a%b", 0, False), ("m", "aXYb", 0, False), ("m2", "Foo.baz", 0, False), ("m", "my", 0, False), ("m", "a_b", 0, False),
     ("m", "Box[int].get", 0, False), ("m", "Boxi", 0, False), ("m", "is_ok?", 0, False), ("m", "is_okay", 0, False), ("m", "a*b", 0, False), ("m", "a.b", 0, False)],
    [("m", "my_func", 0, False), ("m", "x", 0, True), ("m", "Foo.baz", 0, False), ("m", "my_func", 0, False), ("M", "y", 0, True),
     ("m", "gen_fn", 1000, False), ("m", "gen_fn", 1001, False), ("m2", "gen_fn", 1000, False), ("m", "gen_fn", 1003, False)],
    [("m", "gen_fn", 2000, False), ("m", "gen_fn", 2001, False), ("m", "gen_fn", 2001, False), ("m", "gen_fn", 2002, False), ("m", "gen_fn", 2003, False),
     ("m", "gen_fn", 2004, False), ("m2", "gen_fn", 2005, False), ("m2", "gen_fn", 2006, False), ("m", "my_func", 0, False), ("m", "my_func", 0, False)],
]


def run_history(res, d, ops, tag, queries=None):
    """ops: list of ('add', specs) | ('reopen',) | ('second',) ; queries after every op."""
    from monkeytype.db.sqlite import SQLiteStore

    path = os.path.join(d, f"h_{tag}.sqlite3")
    for suffix in ("", "-journal", "-wal", "-shm"):
        if os.path.exists(path + suffix):
            os.remove(path + suffix)
    store = SQLiteStore.make_store(path)
    second = None
    model = Model()
    ctx = []
    res.count("evaluations")
    kinds = set()
    for op in ops:
        if op[0] == "add":
            target = second if (second is not None and op[2]) else store
            try:
                if len(op) > 3 and op[3]:
                    # the route a traced program takes: every trace handed to the store's logger, one flush
                    from monkeytype.db.base import CallTraceStoreLogger

                    lg = CallTraceStoreLogger(target)
                    for s in op[1]:
                        lg.log(mk_trace(*s))
                    lg.flush()
                    res.count("adds_through_the_store_logger")
                else:
                    target.add([mk_trace(*s) for s in op[1]])
            except Exception as e:
                res.violation(f"add-raises:{type(e).__name__}", f"add raised {e!r} after {ctx}", {"history": ctx})
                return
            model.add(op[1])
            ctx.append(["add", [list(s) for s in op[1]], bool(op[2] and second is not None)] + (["through-logger"] if len(op) > 3 and op[3] else []))
            res.count("adds")
            if any(s[3] for s in op[1]):
                res.count("batches_with_unserialisable")
                kinds.add("bad")
        elif op[0] == "reopen":
            store.conn.close()
            store = SQLiteStore.make_store(path)
            ctx.append(["reopen"])
            res.count("reopens")
            kinds.add("reopen")
        elif op[0] == "redate":
            # the rows so far were written on earlier days (an independent connection back-dates them): the same trace added again
            # today is still ONE distinct row
            conn = sqlite3.connect(path)
            ids = [r[0] for r in conn.execute("SELECT rowid FROM monkeytype_call_traces")]
            with conn:
                for j, rid in enumerate(ids):
                    conn.execute("UPDATE monkeytype_call_traces SET created_at = ? WHERE rowid = ?", (f"2024-0{1 + (j + len(ctx)) % 9}-1{j % 10} 10:00:00.000", rid))
            conn.close()
            ctx.append(["redate"])
            res.count("histories_with_rows_from_earlier_days")
            kinds.add("redate")
        elif op[0] == "second":
            second = SQLiteStore.make_store(path)
            ctx.append(["second-connection"])
            kinds.add("second")
        check_queries(res, store, model, queries or ALL_QUERIES, list(ctx))
        if second is not None:
            check_queries(res, second, model, (queries or ALL_QUERIES)[::7], list(ctx) + [["via-second-connection"]])
    # independent connection: raw distinct rows == model
    conn = sqlite3.connect(path)
    raw = {row_key(r) for r in conn.execute("SELECT module, qualname, arg_types, yield_type FROM monkeytype_call_traces")}
    ok = conn.execute("PRAGMA integrity_check").fetchone()[0]
    conn.close()
    if raw != model.rows:
        res.violation("committed-rows-differ-from-model", f"raw rows {sorted(raw ^ model.rows)} differ after {ctx}", {"history": ctx})
    if ok != "ok":
        res.violation("integrity-check-failed", ok, {"history": ctx})
    store.conn.close()
    if second is not None:
        second.conn.close()
    res.shape("hist|" + ",".join(sorted(kinds)) + "|" + str(len(model.rows)) + "|" + str(len(model.modules())) + "|" + str(len(ops)))
    res.sample({"history": ctx[:4]}, cap=1)


def gen_batch(rng):
    n = rng.choice([0, 1, 2, 3, 5, 8])
    out = []
    for _ in range(n):
        out.append((rng.choice(MODULES), rng.choice(QUALNAMES), rng.choice([0, 0, 1, 2, 1000, 1001, 1002, 2000, 2001, 2005, 2006]), rng.random() < 0.12))
    return out


def work_histories(p):
    res = core.Res()
    d = core.scratch("c09h")
    rng = random.Random(p["seed"])
    for i, seq in enumerate(p.get("sequences", ())):
        for variant in range(4):
            ops = []
            if variant == 3:
                # every batch twice with a change of day in between
                for b in seq:
                    ops += [("add", BATCHES[b], False, False), ("redate",), ("add", BATCHES[b], False, i % 2 == 1)]
                run_history(res, d, ops, f"{p['seed']}_{i}_{variant}", ALL_QUERIES[::5])
                continue
            for j, b in enumerate(seq):
                if variant == 2 and j == 0:
                    ops.append(("second",))
                ops.append(("add", BATCHES[b], variant == 2 and j % 2 == 1, (i + j + variant) % 2 == 1))
                if variant == 1:
                    ops.append(("reopen",))
            run_history(res, d, ops, f"{p['seed']}_{i}_{variant}")
    for i in range(p.get("random", 0)):
        ops = []
        for _ in range(rng.randint(20, 60) // 4):
            r = rng.random()
            if r < 0.7:
                ops.append(("add", gen_batch(rng), rng.random() < 0.5, rng.random() < 0.35))
            elif r < 0.82:
                ops.append(("reopen",))
            elif r < 0.9:
                ops.append(("redate",))
            else:
                ops.append(("second",))
        # query subset after each op to keep the cost bounded
        qs = rng.sample(ALL_QUERIES, 40)
        run_history(res, d, ops, f"{p['seed']}_r{i}", qs)
    # bulk stratum: many rows, heavy duplication, limits around the distinct count
    for i in range(p.get("bulk", 0)):
        nq = rng.choice([30, 80, 150])
        rows = [(rng.choice(["m", "M"]), rng.choice(["my_func", "Foo.bar", "foo"]), j, False) for j in range(nq)]
        ops = []
        for rep in range(rng.choice([2, 3])):
            rng.shuffle(rows)
            ops.append(("add", list(rows), False))
            if rep == 0:
                ops.append(("reopen",))
        dm = len({r for r in rows if r[0] == "m"})
        qs = [(m, pfx, lim) for m in ("m", "M") for pfx in (None, "my_func", "Foo", "f") for lim in (1, 7, dm - 1, dm, dm + 1, nq, 2 * nq, 1000)]
        run_history(res, d, ops, f"{p['seed']}_b{i}", qs)
        res.count("bulk_histories")
    shutil.rmtree(d, ignore_errors=True)
    return res.out()


# ------------------------------------------------------------------------------------------------
# (3) concurrency

WRITER = r"""
import os, sys, json, time
sys.setswitchinterval(1e-4)
from monkeytype.db.sqlite import SQLiteStore
from vf.props.c09 import mk_trace
path, w, rounds, size, rfd = sys.argv[1], int(sys.argv[2]), int(sys.argv[3]), int(sys.argv[4]), int(sys.argv[5])
reopen = len(sys.argv) > 6 and sys.argv[6] == "reopen"
store = SQLiteStore.make_store(path)
os.read(rfd, 1)  # barrier: all writers released together
out = []
for b in range(rounds):
    batch = [mk_trace("conc", f"w{w}_b{b}.f{i}", 0) for i in range(size)]
    if reopen and b:
        # every batch comes from a fresh connection (as each `monkeytype run` does), opened while other writers commit
        store.conn.close()
        store = SQLiteStore.make_store(path)
    try:
        store.add(batch)
        out.append([b, "ok"])
    except Exception as e:
        out.append([b, "raised:" + type(e).__name__ + ":" + str(e)[:60]])
print(json.dumps(out))
"""

READER = r"""
import os, sys, json, time, collections
from monkeytype.db.sqlite import SQLiteStore
path, size, stopfile = sys.argv[1], int(sys.argv[2]), sys.argv[3]
store = SQLiteStore.make_store(path)
reads = 0; partial = []; maxseen = 0; errors = collections.Counter()
while not os.path.exists(stopfile):
    try:
        rows = store.filter("conc", None, 10**7)
    except Exception as e:
        errors[type(e).__name__ + ":" + str(e)[:40]] += 1
        continue
    reads += 1
    c = collections.Counter(r.qualname.split(".")[0] for r in rows)
    maxseen = max(maxseen, len(c))
    for k, v in c.items():
        if v != size:
            partial.append([k, v])
print(json.dumps({"reads": reads, "partial": partial[:10], "npartial": len(partial), "max_batches_seen": maxseen, "errors": dict(errors)}))
"""


def run_concurrency(ck, writers, rounds, size, readers, tag, reopen=False):
    d = core.scratch("c09c")
    path = os.path.join(d, "conc.sqlite3")
    env = core.child_env()
    rfd, wfd = os.pipe()
    os.set_inheritable(rfd, True)
    stopfile = os.path.join(d, "stop")
    procs = []
    for w in range(writers):
        procs.append(subprocess.Popen([core.PY, "-X", "faulthandler", "-c", WRITER, path, str(w), str(rounds), str(size), str(rfd)] + (["reopen"] if reopen else []),
                                      env=env, cwd=core.VERIF, stdout=subprocess.PIPE, stderr=subprocess.PIPE, text=True, pass_fds=[rfd]))
    rprocs = [subprocess.Popen([core.PY, "-X", "faulthandler", "-c", READER, path, str(size), stopfile], env=env, cwd=core.VERIF,
                               stdout=subprocess.PIPE, stderr=subprocess.PIPE, text=True) for _ in range(readers)]
    time.sleep(0.8)  # let every writer reach the barrier (a late one only reduces contention; it is not a verdict)
    os.write(wfd, b"x" * writers)
    outcomes = {}
    watchdog = False
    for w, p in enumerate(procs):
        try:
            out, err = p.communicate(timeout=300)
            if p.returncode != 0:
                ck.harness_errors.append(f"writer {w} rc={p.returncode}: {err[-500:]}")
                continue
            for b, o in json.loads(out.strip().splitlines()[-1]):
                outcomes[(w, b)] = o
        except subprocess.TimeoutExpired:
            p.kill()
            watchdog = True
    open(stopfile, "w").close()
    for p in rprocs:
        try:
            out, err = p.communicate(timeout=120)
            r = json.loads(out.strip().splitlines()[-1])
            ck.count("reader_reads", r["reads"])
            ck.count("reader_max_batches_seen", r["max_batches_seen"])
            for k, v in r["errors"].items():
                ck.count("reader_error:" + k, v)
            if r["npartial"]:
                ck.violation("reader-saw-partial-batch", f"a concurrent reader saw batches with a partial row count: {r['partial']}",
                             {"writers": writers, "rounds": rounds, "size": size, "partial": r["partial"]})
        except Exception as e:
            p.kill()
            ck.harness_errors.append(f"reader failed: {e!r}")
    os.close(rfd)
    os.close(wfd)
    if watchdog:
        ck.count("watchdog_fired")
        shutil.rmtree(d, ignore_errors=True)
        return
    conn = sqlite3.connect(path)
    rows = conn.execute("SELECT rowid, qualname FROM monkeytype_call_traces WHERE module='conc' ORDER BY rowid").fetchall()
    integ = conn.execute("PRAGMA integrity_check").fetchone()[0]
    conn.close()
    by = {}
    for rid, qn in rows:
        by.setdefault(qn.split(".")[0], []).append(rid)
    order = []
    for (w, b), o in sorted(outcomes.items()):
        key = f"w{w}_b{b}"
        n = len(by.get(key, []))
        ck.count("concurrent_batches")
        if reopen:
            ck.count("concurrent_batches_from_fresh_connections")
        ck.count("evaluations")
        if o == "ok":
            if n != size:
                ck.violation("acknowledged-batch-not-fully-committed", f"batch {key}: add() returned but {n}/{size} rows present",
                             {"writers": writers, "batch": key, "present": n})
        else:
            ck.count("concurrent_add_raised")
            ck.count("raised:" + o.split(":")[1])
            if n not in (0, size):
                ck.violation("raised-batch-partially-committed", f"batch {key}: add() raised ({o}) and {n}/{size} rows present",
                             {"writers": writers, "batch": key, "present": n})
    for key, rids in by.items():
        if len(rids) == size and max(rids) - min(rids) != size - 1:
            ck.violation("batch-rows-interleaved", f"rows of batch {key} are not contiguous in commit order: {rids}", {"batch": key, "rowids": rids})
    order = [k.split("_")[0] for k, _ in sorted(((k, min(v)) for k, v in by.items()), key=lambda kv: kv[1])]
    ck.seen("commit_orders", ",".join(order))
    ck.shape("conc|" + ",".join(order))
    if integ != "ok":
        ck.violation("integrity-check-failed", integ, {"part": "concurrency"})
    if len(ck.samples) < 6:
        ck.sample({"concurrency": {"writers": writers, "rounds": rounds, "commit_order": order[:24]}})
    shutil.rmtree(d, ignore_errors=True)


def work_lock(p):
    """Another connection holds the write lock while add() runs: for longer than the store's busy timeout (add() fails, or a
    retrying add() succeeds late) or for less (add() waits).  Whatever add() reports, the batch is all-or-none and an
    acknowledged batch is complete."""
    import threading

    from monkeytype.db.sqlite import SQLiteStore

    res = core.Res()
    d = core.scratch("c09l")
    for hold in p["holds"]:
        path = os.path.join(d, f"lock{hold}.sqlite3")
        store = SQLiteStore.make_store(path)
        store.add([mk_trace(*s) for s in batch_specs("A", 3)])
        holder = sqlite3.connect(path, timeout=0, isolation_level=None, check_same_thread=False)
        holder.execute("BEGIN IMMEDIATE")
        released = []

        def release():
            time.sleep(hold)
            holder.execute("COMMIT")
            released.append(time.time())

        th = threading.Thread(target=release)
        t0 = time.time()
        th.start()
        raised = None
        try:
            store.add([mk_trace(*s) for s in batch_specs("B", 5)])
        except Exception as e:
            raised = e
        waited = time.time() - t0
        th.join()
        holder.close()
        store.conn.close()
        c, integ = state_of(path, None)
        nb = c.get("B", 0)
        res.count("evaluations")
        res.count("lock_contention_cases")
        res.count("lock_contention_add_" + ("raised" if raised is not None else "returned"))
        res.seen("lock_contention_outcomes", f"hold={hold}s:{'raised:' + str(raised)[:30] if raised is not None else 'ok'}:{nb}/5")
        res.shape(f"lock|{hold}|{'raised' if raised else 'ok'}|{nb}")
        wit = {"lock_held_for_s": hold, "add_waited_s": round(waited, 2), "raised": repr(raised)[:120], "rows": nb}
        if c.get("A", 0) != 3:
            res.violation("committed-batch-lost", f"batch A has {c.get('A', 0)}/3 rows after a contended add", wit)
        if raised is None and nb != 5:
            res.violation("acknowledged-batch-not-fully-committed", f"add() returned after waiting for a write lock held {hold}s by another connection: {nb}/5 rows present", wit)
        elif raised is not None and nb not in (0, 5):
            res.violation("raised-batch-partially-committed", f"add() raised ({raised!r:.60}) under lock contention and {nb}/5 rows are present", wit)
        if integ != "ok":
            res.violation("integrity-check-failed", integ, wit)
    shutil.rmtree(d, ignore_errors=True)
    return res.out()


# ------------------------------------------------------------------------------------------------
# (4) faults


def count_steps(path, batch_specs):
    """Number of SQLite VM steps (progress-handler callbacks at N=1) of one uninterrupted add()."""
    from monkeytype.db.sqlite import SQLiteStore

    store = SQLiteStore.make_store(path)
    n = [0]

    def h():
        n[0] += 1
        return 0

    store.conn.set_progress_handler(h, 1)
    store.add([mk_trace(*s) for s in batch_specs])
    store.conn.set_progress_handler(None, 1)
    store.conn.close()
    return n[0]


def state_of(path, sizes):
    """Independent connection: rows per batch tag."""
    conn = sqlite3.connect(path)
    try:
        rows = conn.execute("SELECT qualname FROM monkeytype_call_traces").fetchall()
        integ = conn.execute("PRAGMA integrity_check").fetchone()[0]
    finally:
        conn.close()
    c = {}
    for (qn,) in rows:
        c[qn.split(".")[0]] = c.get(qn.split(".")[0], 0) + 1
    return c, integ


def batch_specs(tag, size, bad_at=None):
    return [("flt", f"{tag}.f{i}", 0, i == bad_at) for i in range(size)]


def work_abort(p):
    """Progress-handler abort at chosen VM steps of add(B) after add(A) committed; same process."""
    from monkeytype.db.sqlite import SQLiteStore

    res = core.Res()
    d = core.scratch("c09a")
    size = p["size"]
    for step in p["steps"]:
        path = os.path.join(d, f"a{step}.sqlite3")
        store = SQLiteStore.make_store(path)
        store.add([mk_trace(*s) for s in batch_specs("A", 3)])
        n = [0]

        def h():
            n[0] += 1
            return 1 if n[0] == step else 0

        store.conn.set_progress_handler(h, 1)
        raised = None
        try:
            store.add([mk_trace(*s) for s in batch_specs("B", size, bad_at=p.get("bad_at"))])
        except Exception as e:
            raised = e
        store.conn.set_progress_handler(None, 1)
        retried = False
        if raised is not None and p.get("retry") and step % 2 == 0:
            # the caller retries the same batch through the same store object (CallTraceStoreLogger.flush keeps its traces)
            try:
                store.add([mk_trace(*s) for s in batch_specs("B", size, bad_at=p.get("bad_at"))])
                retried = True
                res.count("retries_after_abort")
            except Exception as e:
                res.violation(f"retry-add-raises:{type(e).__name__}", f"retry after abort at VM step {step} raised {e!r}", {"step": step})
        res.count("evaluations")
        res.count("abort_points")
        nser = size - (1 if p.get("bad_at") is not None else 0)
        # the same connection must still be usable and see all-or-none
        try:
            seen = len(store.filter("flt", "B.", 10**6))
        except Exception as e:
            res.violation(f"store-unusable-after-abort:{type(e).__name__}", f"filter after aborted add raised {e!r}", {"step": step, "size": size})
            seen = None
        store.conn.close()
        c, integ = state_of(path, None)
        nb = c.get("B", 0)
        res.shape(f"abort|{size}|{'raised' if raised else 'ok'}|{nb}")
        if raised is not None:
            res.count("abort_raised")
            if nb == nser:
                res.count("raised_but_committed")
        if c.get("A", 0) != 3:
            res.violation("committed-batch-lost", f"batch A has {c.get('A', 0)}/3 rows after aborted add at VM step {step}", {"step": step})
        distinct_b = len({r for r in sqlite3.connect(path).execute("SELECT qualname FROM monkeytype_call_traces WHERE qualname LIKE 'B.%'")})
        if retried:
            if distinct_b != nser:
                res.violation("acknowledged-retry-not-committed", f"abort at VM step {step}, then add() of the same batch returned: {distinct_b}/{nser} distinct rows present", {"step": step})
        elif nb not in (0, nser):
            res.violation("batch-partially-committed", f"abort at VM step {step}: {nb}/{nser} rows of the batch committed", {"step": step, "size": size})
            res.count("partial")
        if retried:
            continue
        if raised is None and nb != nser:
            res.violation("acknowledged-batch-not-fully-committed", f"add returned, {nb}/{nser} rows", {"step": step})
        if seen is not None and seen != nb:
            res.violation("same-connection-view-differs", f"own connection sees {seen} rows, file has {nb}", {"step": step})
        if integ != "ok":
            res.violation("integrity-check-failed", integ, {"step": step})
        if 0 < step:
            res.seen("abort_outcomes", f"{'raised' if raised else 'ok'}:{'all' if nb == nser else ('none' if nb == 0 else 'partial')}")
    shutil.rmtree(d, ignore_errors=True)
    return res.out()


KILL_CHILD = r"""
import os, sys, signal
from monkeytype.db.sqlite import SQLiteStore
from vf.props.c09 import mk_trace, batch_specs
path, step, size = sys.argv[1], int(sys.argv[2]), int(sys.argv[3])
store = SQLiteStore.make_store(path)
store.add([mk_trace(*s) for s in batch_specs("A", 3)])
n = [0]
def h():
    n[0] += 1
    if n[0] == step:
        os.kill(os.getpid(), signal.SIGKILL)
    return 0
if step > 0:
    store.conn.set_progress_handler(h, 1)
store.add([mk_trace(*s) for s in batch_specs("B", size)])
print("DONE")
"""


def work_kill(p):
    """SIGKILL of a writer child at chosen VM steps; a fresh process (this one) reopens the file."""
    res = core.Res()
    d = core.scratch("c09k")
    env = core.child_env()
    size = p["size"]
    for step in p["steps"]:
        path = os.path.join(d, f"k{step}.sqlite3")
        try:
            r = subprocess.run([core.PY, "-X", "faulthandler", "-c", KILL_CHILD, path, str(step), str(size)], env=env, cwd=core.VERIF,
                               capture_output=True, text=True, timeout=120)
        except subprocess.TimeoutExpired:
            res.count("watchdog_fired")
            continue
        res.count("evaluations")
        killed = r.returncode == -signal.SIGKILL
        if not killed and "DONE" not in r.stdout:
            res.count("child_anomaly")
            res.violation("writer-child-anomaly", f"child rc={r.returncode} stderr={r.stderr[-400:]}", {"step": step})
            continue
        res.count("kill_points" if killed else "kill_not_reached")
        # reopen through the store (hot-journal recovery happens here), then judge through an independent connection
        from monkeytype.db.sqlite import SQLiteStore

        try:
            st = SQLiteStore.make_store(path)
            via_store = len(st.filter("flt", "B.", 10**6))
            a_store = len(st.filter("flt", "A.", 10**6))
            st.conn.close()
        except Exception as e:
            res.violation(f"reopen-after-kill-raises:{type(e).__name__}", f"{e!r} after kill at VM step {step}", {"step": step})
            continue
        c, integ = state_of(path, None)
        nb = c.get("B", 0)
        res.shape(f"kill|{size}|{killed}|{nb}")
        res.seen("kill_outcomes", f"{'killed' if killed else 'done'}:{'all' if nb == size else ('none' if nb == 0 else 'partial')}")
        if c.get("A", 0) != 3 or a_store != 3:
            res.violation("committed-batch-lost", f"batch A has {c.get('A', 0)}/3 rows after kill at VM step {step}", {"step": step})
        if nb not in (0, size) or via_store != nb:
            res.violation("batch-partially-committed", f"kill at VM step {step}: {nb}/{size} rows of the batch visible after reopen", {"step": step, "size": size})
        if not killed and nb != size:
            res.violation("acknowledged-batch-not-fully-committed", f"{nb}/{size}", {"step": step})
        if integ != "ok":
            res.violation("integrity-check-failed", integ, {"step": step})
        for sfx in ("", "-journal", "-wal", "-shm"):
            if os.path.exists(path + sfx):
                os.remove(path + sfx)
    shutil.rmtree(d, ignore_errors=True)
    return res.out()


STRACE_CHILD = r"""
import os, sys
from monkeytype.db.sqlite import SQLiteStore
from vf.props.c09 import mk_trace, batch_specs
path, size = sys.argv[1], int(sys.argv[2])
store = SQLiteStore.make_store(path)
out = []
for tag in ("A", "B"):
    try:
        store.add([mk_trace(*s) for s in batch_specs(tag, size)])
        out.append(tag + ":ok")
    except Exception as e:
        out.append(tag + ":raised:" + type(e).__name__)
print("RESULT " + " ".join(out))
"""

SYSCALLS = ["pwrite64", "fdatasync", "fsync", "unlink", "ftruncate"]


def strace_profile(d, size):
    """Dry run: how many times each write-path syscall occurs in the child."""
    path = os.path.join(d, "profile.sqlite3")
    log = os.path.join(d, "profile.strace")
    r = subprocess.run(["strace", "-f", "-o", log, "-e", "trace=" + ",".join(SYSCALLS), core.PY, "-c", STRACE_CHILD, path, str(size)],
                       env=core.child_env(), cwd=core.VERIF, capture_output=True, text=True, timeout=120)
    counts = {}
    if r.returncode != 0 or "RESULT A:ok B:ok" not in r.stdout:
        return None
    for line in open(log):
        for s in SYSCALLS:
            if f" {s}(" in line and ".sqlite3" in line or (f" {s}(" in line and s in ("pwrite64", "fdatasync", "fsync", "ftruncate")):
                counts[s] = counts.get(s, 0) + 1
                break
    for sfx in ("", "-journal"):
        if os.path.exists(path + sfx):
            os.remove(path + sfx)
    return counts


def work_strace(p):
    res = core.Res()
    d = core.scratch("c09s")
    size = p["size"]
    for sc, when, fault in p["points"]:
        path = os.path.join(d, f"s_{sc}_{when}_{fault}.sqlite3")
        inj = f"inject={sc}:signal=SIGKILL:when={when}" if fault == "KILL" else f"inject={sc}:error={fault}:when={when}"
        try:
            r = subprocess.run(["strace", "-f", "-o", "/dev/null", "-e", "trace=" + sc, "-e", inj, core.PY, "-c", STRACE_CHILD, path, str(size)],
                               env=core.child_env(), cwd=core.VERIF, capture_output=True, text=True, timeout=120)
        except subprocess.TimeoutExpired:
            res.count("watchdog_fired")
            continue
        res.count("evaluations")
        res.count("syscall_fault_points")
        outcome = {}
        for tok in (r.stdout.split("RESULT ", 1)[1].split() if "RESULT " in r.stdout else []):
            tag, o = tok.split(":", 1)
            outcome[tag] = o
        killed = "RESULT" not in r.stdout
        if not os.path.exists(path):
            res.count("no_database_file_yet")
            continue
        try:
            from monkeytype.db.sqlite import SQLiteStore

            st = SQLiteStore.make_store(path)
            st.filter("flt", None, 10)
            st.conn.close()
            c, integ = state_of(path, None)
        except Exception as e:
            res.violation(f"reopen-after-fault-raises:{type(e).__name__}", f"{e!r} after {sc}#{when} {fault}", {"syscall": sc, "when": when, "fault": fault})
            continue
        na, nb = c.get("A", 0), c.get("B", 0)
        res.shape(f"strace|{sc}|{fault}|{killed}|{na}|{nb}")
        res.seen("fault_outcomes", f"{sc}:{fault}:{'killed' if killed else 'A=' + outcome.get('A', '?')[:6] + ',B=' + outcome.get('B', '?')[:6]}:A={na},B={nb}")
        wit = {"syscall": sc, "when": when, "fault": fault, "A": na, "B": nb, "outcome": outcome}
        if na not in (0, size) or nb not in (0, size):
            res.violation("batch-partially-committed", f"{sc}#{when} {fault}: A={na}/{size} B={nb}/{size} after reopen", wit)
        if nb and not na and outcome.get("A", "ok") == "ok" and killed:
            res.violation("committed-batch-lost", f"{sc}#{when} {fault}: batch B present but the earlier batch A is gone", wit)
        for tag, n in (("A", na), ("B", nb)):
            if outcome.get(tag) == "ok" and n != size:
                res.violation("acknowledged-batch-not-fully-committed", f"{sc}#{when} {fault}: add({tag}) returned, {n}/{size} rows after reopen", wit)
        if integ != "ok":
            res.violation("integrity-check-failed", integ, wit)
        for sfx in ("", "-journal", "-wal", "-shm"):
            if os.path.exists(path + sfx):
                os.remove(path + sfx)
    shutil.rmtree(d, ignore_errors=True)
    return res.out()


# ------------------------------------------------------------------------------------------------


def run(ck):
    quick = ck.tier == "quick"
    n = core.NPROC
    # (1)+(2) histories
    seqs = [list(s) for L in (1, 2, 3) for s in itertools.product(range(len(BATCHES)), repeat=L)]
    payloads = [{"sequences": seqs[i::n], "random": (160 if quick else 5000) // n, "bulk": 1 if quick else 6, "seed": f"C09:{ck.seed}:{i}"} for i in range(n)]
    for r in core.pmap("vf.props.c09:work_histories", payloads, timeout=3000):
        ck.merge(r)
    # (3) concurrency
    plans = [(4, 4, 5, 2)] * 4 if quick else [(w, 6, 5, 2) for w in (2, 4, 8, 16) for _ in range(5)]
    if quick:
        plans.append((8, 2, 5, 2))
    for i, (w, rounds, size, readers) in enumerate(plans):
        run_concurrency(ck, w, rounds, size, readers, i, reopen=i % 2 == 1)
    # (3b) write lock held by another connection around the store's busy timeout (5 s by default)
    for r in core.pmap("vf.props.c09:work_lock", [{"holds": [h]} for h in ([1.0, 5.6, 6.5] if quick else [0.5, 2.0, 4.5, 5.3, 5.6, 6.0, 7.0, 9.0, 12.0])], timeout=600):
        ck.merge(r)
    # (4) faults: VM steps
    d = core.scratch("c09")
    sizes = [6] if quick else [1, 6, 25]
    tasks_abort, tasks_kill = [], []
    for size in sizes:
        steps = count_steps(os.path.join(d, f"count{size}.sqlite3"), batch_specs("B", size))
        ck.count("vm_steps_of_uninterrupted_add", steps)
        allsteps = list(range(1, steps + 2))
        ab = allsteps
        ki = allsteps[::4] + allsteps[-8:] if quick else allsteps
        for ch in [ab[i::n] for i in range(n)]:
            if ch:
                tasks_abort.append({"size": size, "steps": ch, "retry": True})
        if not quick or size == 6:
            for ch in [ab[i::n] for i in range(0, n, 4)]:
                tasks_abort.append({"size": size, "steps": ch[::4], "bad_at": 2 if size > 2 else 0})
        for ch in [ki[i::n] for i in range(n)]:
            if ch:
                tasks_kill.append({"size": size, "steps": ch})
    # large batches (more rows than fit one multi-row statement / one page): interruption points sampled over the whole insert
    rs = ck.rng("bigbatch")
    for big in ([400] if quick else [400, 1500]):
        steps = count_steps(os.path.join(d, f"count{big}.sqlite3"), batch_specs("B", big))
        ck.count("vm_steps_of_uninterrupted_large_add", steps)
        pts = sorted(set(rs.sample(range(1, steps + 1), min(steps, 96 if quick else 800))) | set(range(max(1, steps - 6), steps + 2)))
        for ch in [pts[i::n] for i in range(n)]:
            if ch:
                tasks_abort.append({"size": big, "steps": ch, "retry": True})
                ck.count("large_batch_abort_points", len(ch))
        kp = pts[::6] if quick else pts[::3]
        for ch in [kp[i::n] for i in range(n)]:
            if ch:
                tasks_kill.append({"size": big, "steps": ch})
                ck.count("large_batch_kill_points", len(ch))
    for r in core.pmap("vf.props.c09:work_abort", tasks_abort, timeout=3000):
        ck.merge(r)
    for r in core.pmap("vf.props.c09:work_kill", tasks_kill, timeout=3000):
        ck.merge(r)
    # (4) faults: syscalls
    caps_ok = shutil.which("strace") is not None
    prof = strace_profile(d, 6) if caps_ok else None
    if not prof:
        ck.count("strace_unusable")
        ck.note("strace/ptrace unusable: syscall fault part inconclusive")
    else:
        ck.note(f"write-path syscalls of the profiled child: {prof}")
        points = []
        for sc, cnt in sorted(prof.items()):
            whens = list(range(1, cnt + 1))
            if quick and len(whens) > 14:
                whens = whens[::2]
            for w in whens:
                points.append((sc, w, "KILL"))
                if not quick or w % 2 == 1:
                    points.append((sc, w, "EIO"))
                if not quick:
                    points.append((sc, w, "ENOSPC"))
        tasks = [{"size": 6, "points": points[i::n]} for i in range(n) if points[i::n]]
        for r in core.pmap("vf.props.c09:work_strace", tasks, timeout=3000):
            ck.merge(r)
    ck.need("filter_judgements", 50000)
    ck.need("batches_with_unserialisable", 50)
    ck.need("reopens", 50)
    ck.need("adds_through_the_store_logger", 50)
    ck.need("histories_with_rows_from_earlier_days", 50)
    ck.need("bulk_histories", 8)
    ck.need("commit_orders", 3, "fewer than 3 distinct commit orders seen")
    ck.need("reader_reads", 20)
    ck.need("concurrent_batches_from_fresh_connections", 30)
    ck.need("lock_contention_cases", 3)
    ck.need("abort_points", 100)
    ck.need("retries_after_abort", 20)
    ck.need("abort_raised", 50, "no abort landed inside the insert")
    ck.need("kill_points", 20)
    ck.need("large_batch_abort_points", 50)
    ck.need("large_batch_kill_points", 10)
    ck.need("syscall_fault_points", 10, "strace injection part did not run")
    if ck.counters.get("watchdog_fired"):
        ck.need("no_watchdog", 1, "a watchdog fired")
    return ck.finish(
        level="fault_enumeration",
        rule="(1) every add-sequence of length <= 3 over 4 fixed batches (x plain / reopen-after-each / second-connection) and random "
        "histories, each followed by every (module, prefix, limit) query over an alphabet colliding under case folding and SQL "
        "wildcards, judged against a set model; (2) unserialisable traces inside batches; (3) writer and reader processes on one "
        "file, commit orders read from rowids; (4) progress-handler abort and SIGKILL at SQLite VM steps of a batch insert, "
        "SIGKILL/EIO(/ENOSPC) injected at each write-path syscall occurrence with strace; state read back through an independent "
        "sqlite3 connection after reopening. distinct = (history kind, model size) / commit order / (fault kind, point outcome)",
        assumptions=["a raised or killed add() is all-or-none, not necessarily none (an abort at the last COMMIT step raises although committed)",
                     "crash = process kill / syscall error on this file system; power loss (lost fsync) is not simulated",
                     "the reference model is a Python set of (module, qualname, payload) tuples"],
    )


def replay(ck, path):
    data = json.load(open(path))
    res = core.Res()
    d = core.scratch("c09r")
    for case in data.get("cases", []):
        hist = (case["witness"] or {}).get("history")
        if not hist:
            continue
        ops = []
        for h in hist:
            if h[0] == "add":
                ops.append(("add", [tuple(s) for s in h[1]], h[2], "through-logger" in h[3:]))
            elif h[0] == "reopen":
                ops.append(("reopen",))
            elif h[0] == "second-connection":
                ops.append(("second",))
            elif h[0] == "redate":
                ops.append(("redate",))
        run_history(res, d, ops, "replay")
    ck.merge(res.out())
    return ck.finish(level="fault_enumeration", rule="replay of " + path)
