"""C14 - stub content depends only on the set of traces, not their order or process.  DESIGN 6 C14."""
import json
import os
import random
import shutil

from vf import core
from vf.gen import modules as gm
from vf.gen import values as gv
from vf.oracle import rt as RT
from vf.oracle.stubeval import StubEval
from vf.props import modrun

WIDE_POOL = [e for e in gv.BASIS if "make_gen" not in e and "lambda" not in e] + ["X1()", "X2()", "X3()", "X4()", "X5()", "X6()", "E1()", "E2()", "E3()", "E4()", "E5()", "E6()",
                                                             "R1()", "[X1(), X2()]", "{'a': X1()}", "{'a': 1, 'b': X2()}", "PkgLevel()", "[PkgLevel(), A()]", "{'p': PkgLevel()}"]


def normal_form(text, tmod):
    """Stub text -> comparable structure: imports, classes, per-position RT (TypedDict classes inlined, unions as sets)."""
    import ast

    se = StubEval(text, tmod)
    if se.syntax_error:
        return {"syntax_error": se.syntax_error}, se
    imports = set()
    for node in se.tree.body:
        if isinstance(node, ast.ImportFrom):
            for a in node.names:
                imports.add(f"{node.module}.{a.name}")
        elif isinstance(node, ast.Import):
            for a in node.names:
                imports.add(a.name)
    funcs = {}
    collided = se.collided_closure()
    tainted = set()  # positions whose annotation names a generated TypedDict class that is defined twice (listed finding)

    def taint(node, where):
        if node is not None and collided and any(c in ast.unparse(node) for c in collided):
            tainted.add(where)

    for q, info in se.funcs.items():
        sig = []
        for name, kind, node, has_def in info.params():
            t = se.ann_rt(node, f"{q}({name})") if node is not None else None
            taint(node, f"{q}({name})")
            sig.append((name, kind, has_def, RT.show(t) if t is not None else (None if node is None else "UNRESOLVED:" + ast.unparse(node))))
        r = info.node.returns
        t = se.ann_rt(r, f"{q}(return)") if r is not None else None
        taint(r, f"{q}(return)")
        funcs[q] = {"params": sig, "returns": RT.show(t) if t is not None else (None if r is None else "UNRESOLVED:" + ast.unparse(r)),
                    "decorators": info.decorators, "async": info.is_async}
    order = []
    for node in se.tree.body:
        if isinstance(node, (ast.FunctionDef, ast.AsyncFunctionDef, ast.ClassDef)):
            order.append(node.name)
            if isinstance(node, ast.ClassDef):
                order += [f"{node.name}.{x.name}" if hasattr(x, "name") else f"{node.name}.{x.target.id}" for x in node.body if hasattr(x, "name") or isinstance(x, ast.AnnAssign)]
        elif isinstance(node, ast.ImportFrom):
            order += [f"import {node.module}.{a.name}" for a in node.names]
    # which shape every generated class NAME stands for (the classes are part of the stub; names that are defined twice are the listed
    # collision finding and are left to it)
    table = {}
    for cname in sorted(se.td_nodes):
        if "#" in cname or cname in collided:
            continue
        try:
            table[cname] = RT.show(se._td_spec(cname, ()))
        except Exception as e:  # noqa: BLE001
            table[cname] = f"UNRESOLVED:{type(e).__name__}"
    return {"class_table": table, "imports": sorted(imports), "classes": sorted(se.class_defs) + [f"{n} x{c}" for n, c in sorted(se.td_def_counts.items()) if n not in collided],
            "functions": funcs, "order": order, "tainted": sorted(tainted),
            "collided": sorted(collided)}, se


def diff_nf(a, b):
    out = []
    if a.get("syntax_error") or b.get("syntax_error"):
        return ["syntax error in a variant"]
    for key in ("imports", "classes"):
        if a[key] != b[key]:
            out.append(f"{key}: {sorted(set(a[key]) ^ set(b[key]))}")
    ta, tb = a.get("class_table", {}), b.get("class_table", {})
    names = set(a.get("collided", ())) | set(b.get("collided", ()))
    for cname in sorted(set(ta) & set(tb)):
        if ta[cname] != tb[cname] and cname not in names:
            out.append(f"generated class {cname}: {ta[cname]} vs {tb[cname]}")
    if a["order"] != b["order"] and sorted(a["order"]) == sorted(b["order"]):
        names = set(a.get("collided", ())) | set(b.get("collided", ()))

        def drop(order):
            return [x for x in order if x.split(".")[0] not in names]

        if names and drop(a["order"]) == drop(b["order"]):
            out.append("COLLISION order of the same-named generated TypedDict classes differs")
        else:
            out.append("order of definitions / imports in the stub text differs")
    for q in sorted(set(a["functions"]) | set(b["functions"])):
        fa, fb = a["functions"].get(q), b["functions"].get(q)
        if fa is None or fb is None:
            out.append(f"function {q} present in only one variant")
        elif fa != fb:
            taintset = set(a.get("tainted", ())) | set(b.get("tainted", ()))
            for pa, pb in zip(fa["params"], fb["params"]):
                if pa != pb:
                    out.append(("COLLISION " if f"{q}({pa[0]})" in taintset else "") + f"{q}({pa[0]}): {pa[3]} vs {pb[3]}")
            if fa["returns"] != fb["returns"]:
                out.append(("COLLISION " if f"{q}(return)" in taintset else "") + f"{q}(return): {fa['returns']} vs {fb['returns']}")
    return out


def write_store(db, rows, rng, mode):
    """Rows into the real store, split into batches / connections as mode says."""
    from monkeytype.db.sqlite import SQLiteStore

    class T:  # a thunk-free stand-in: SQLiteStore.add serialises CallTraces, so insert rows through its connection API
        pass

    if os.path.exists(db):
        os.remove(db)
    st = SQLiteStore.make_store(db)
    conns = [st] + ([SQLiteStore.make_store(db)] if mode["connections"] > 1 else [])
    i = 0
    while i < len(rows):
        n = rng.randint(1, max(1, mode["batch"]))
        batch = rows[i:i + n]
        i += n
        s = rng.choice(conns)
        s.add(batch)
    for s in conns:
        s.conn.close()
    # the batches come from runs on different days: the store orders by date(created_at), so this is what varies the
    # order in which rows reach the stub builder (within one day SQLite returns groups in key order)
    import sqlite3

    conn = sqlite3.connect(db)
    ids = [r[0] for r in conn.execute("SELECT rowid FROM monkeytype_call_traces")]
    with conn:
        for rid in ids:
            conn.execute("UPDATE monkeytype_call_traces SET created_at = ? WHERE rowid = ?", (f"2024-0{rng.randint(1, 9)}-1{rng.randint(0, 9)} 10:00:00.000", rid))
    conn.close()


def work(p):
    res = core.Res()
    d = core.scratch("c14")
    for spec in p["sets"]:
        rng = random.Random(spec["seed"])
        m = gm.Mod(rng, spec["name"], {"nested_classes": False, "annotate": 0.1, "wide": True, "pool": WIDE_POOL}).build(spec.get("nfuncs", 8))
        fam = gm.FuncSpec(99, "mi_family", [], "module", "plain")
        fam.params = [gm.Param("x", "normal", vals=["X1()", "X2()", "X3()", "X4()", "X5()", "X6()"])]
        fam.ret_vals = ["X2()", "X1()", "X4()", "X3()", "X6()", "X5()"]
        tdf = gm.FuncSpec(98, "td_family", [], "module", "plain")
        tdf.params = [gm.Param("d", "normal", vals=["{'a': 1}", "{'b': 'x'}", "{'a': 1, 'c': None}", "{'c': 2}", "{'c': 2, 'b': 1}"]),
                      gm.Param("cased", "normal", vals=["{'ID': 1}", "{'id': 'x'}", "{'Id': None}", "{'ID': 2}", "{'id': 'y'}"])]
        tdf.ret_vals = ["[{'q': 1}, {'r': 2}]", "[{'r': 'x', 's': 1}]", "[{'s': None}]"]
        tup = gm.FuncSpec(97, "tuple_family", [], "module", "plain")
        tup.params = [gm.Param("t", "normal", vals=["(1,)", "(1, 2)", "(1, 2, 3)", "('a',)", "('a', 'b')", "('a', 'b', 'c')", "(1, 2, 3, 4)"])]
        tup.ret_vals = ["1"]
        # a base class and several of its (direct and indirect) subclasses at one position
        subf = gm.FuncSpec(67, "sub_family", [], "module", "plain")
        subf.params = [gm.Param("v", "normal", vals=["A()", "B()", "C()", "D()", "M()"]), gm.Param("w", "normal", vals=["[B()]", "[A()]", "[D()]", "[C()]", "[M()]"])]
        subf.ret_vals = ["D()", "A()", "B()", "M()", "C()"]
        # an empty and a non-empty container of one kind beside a member that itself contains a union (the default chain's empty-container
        # rule must not depend on which of them it meets first)
        empf = gm.FuncSpec(66, "empties_family", [], "module", "plain")
        empf.params = [gm.Param("s", "normal", vals=["set()", "{1}", "{'ea': 1, 'eb': 's'}", "[1, 's']"]), gm.Param("l", "normal", vals=["[]", "[1]", "({1: 1, 2: 's'},)", "{'k': [1, None]}"])]
        empf.ret_vals = ["{}", "{1: 2}", "[{'ec': 1}]", "[{'ec': 's'}]"]
        # classes of one NAME from two modules, met by two functions (and at one position): which import the stub ends up with must not
        # depend on which function's rows come first (the clash itself is C11's listed finding; its outcome has to be stable)
        H2 = "__import__('vf.fixtures.hier2', fromlist=['A'])"
        samef = [gm.FuncSpec(64, "same_name_a", [], "module", "plain"), gm.FuncSpec(65, "same_name_b", [], "module", "plain")]
        samef[0].params = [gm.Param("v", "normal", vals=["A()"])]
        samef[1].params = [gm.Param("v", "normal", vals=[H2 + ".A()"])]
        samef[0].ret_vals, samef[1].ret_vals = ["1"], ["1"]
        abcf = gm.FuncSpec(96, "abc_family", [], "module", "plain")
        abcf.params = [gm.Param("h", "normal", vals=["AH1()", "AH2()", "AH3()", "AH4()", "AH5()", "AH6()"])]
        abcf.ret_vals = ["AH2()", "AH1()", "AH4()", "AH3()", "AH6()", "AH5()"]
        # two functions sharing a parameter name and receiving the same differently-keyed dicts: the generated classes are identical
        dds = []
        for nm in ("dd_a", "dd_b"):
            f = gm.FuncSpec(80 + len(dds), nm, [], "module", "plain")
            f.params = [gm.Param("opts", "normal", vals=["{'a': 1, 'c': 2}", "{'b': 1, 'c': 2}", "{'c': 3}"])]
            f.ret_vals = ["1"]
            dds.append(f)
        # a function whose signature grew a parameter while rows traced under the old signature are still stored
        hist = gm.FuncSpec(79, "hist_family", [], "module", "plain")
        hist.params = [gm.Param("a", "normal", vals=["1", "'s'"]), gm.Param("retries", "normal", default="3", vals=["3", "None"])]
        hist.ret_vals = ["1"]
        # a generator whose calls have equal argument and return types and differ only in what they yield
        yf = gm.FuncSpec(78, "yield_family", [], "module", "gen")
        yf.params = [gm.Param("a", "normal", vals=["1"])]
        yf.yield_vals, yf.single_yield, yf.exit = ["1", "'s'", "A()"], True, "none"
        recf = gm.FuncSpec(68, "rec_family", [], "module", "gen")
        recf.params = [gm.Param("n", "normal", vals=["1"])]
        recf.yield_vals, recf.single_yield, recf.exit = ["1"], True, "none"
        # None next to dicts of one key type and several value types (the neighbourhood of RewriteConfigDict), also nested
        cfgf = gm.FuncSpec(77, "cfg_family", [], "module", "plain")
        cfgf.params = [gm.Param("cfg", "normal", vals=["None", "{'a': 1}", "{'a': 's'}", "{'b': 1.5}"]),
                       gm.Param("many", "normal", vals=["[None, {'a': 1}]", "[{'a': 's'}]", "[{1: 2}, None]", "[{1: 's'}]"])]
        cfgf.ret_vals = ["{'r': 1}", "None", "{'r': 's'}", "{'r': None}"]
        # functions with EQUAL signatures (names, kinds, traced types) whose types are classes the traced module itself defines
        owns = []
        for nm in ("own_a", "own_b", "own_c"):
            f = gm.FuncSpec(70 + len(owns), nm, [], "module", "plain")
            f.params = [gm.Param("item", "normal", vals=["Own()"]), gm.Param("inner", "normal", default="None", vals=["Own.Inner()", "None"])]
            f.ret_vals = ["Own()"]
            owns.append(f)
        # records whose merged key set overflows the limit: the fallback Dict[str, ...] must carry every value type, also those seen
        # only under keys that were optional in an earlier (per-call) merge
        ovf = gm.FuncSpec(69, "ovf_family", [], "module", "plain")
        ovf.params = [gm.Param("rows", "normal", vals=["[{'q': 1}, {'r': 2.5}]", "[{'r': 'x', 's': 1}]", "[{'t': None, 'u': b'x'}]", "[{'q': 1, 'v': A()}]",
                                                         "[{'q': 1, 'w': (1,)}, {'q': 2}]"])]
        ovf.ret_vals = ["[{'ra': 1}, {'rb': 2.5}]", "[{'rc': 'x', 'rd': 1}, {'re': None}]", "[{'rf': b'x'}]"]
        extra = [fam, tdf, tup, abcf, subf, empf] + samef + dds + [hist, yf, recf, cfgf] + owns + [ovf]
        nfixed = len(extra)
        if spec.get("collide"):
            # pinned witness of the listed finding: two functions share a parameter name and get differently shaped dicts
            for nm, val in (("tc_a", "{'x': 1}"), ("tc_b", "{'y': 's'}")):
                f = gm.FuncSpec(90 + len(extra), nm, [], "module", "plain")
                f.params = [gm.Param("cfg", "normal", vals=[val])]
                f.ret_vals = ["1"]
                extra.append(f)
            res.count("collision_witness_sets")
        m.funcs += extra
        m.classes.setdefault((), []).extend(extra)
        m.render()
        try:
            tmod, path = modrun.load(d, m)
        except Exception as e:
            res.violation("harness:module-does-not-import", repr(e), {"source": m.source})
            continue
        k = spec["k"]
        plan = m.call_plan(rng, None, ncalls=(4, 12)) + [(fam, [v], {}) for v in fam.params[0].vals] + [(tdf, [v, w], {}) for v, w in zip(tdf.params[0].vals, tdf.params[1].vals)] + [(tup, [v], {}) for v in tup.params[0].vals] + [(abcf, [v], {}) for v in abcf.params[0].vals] + [(subf, [v, w], {}) for v, w in zip(subf.params[0].vals, subf.params[1].vals)] + [(empf, [v, w], {}) for v, w in zip(empf.params[0].vals, empf.params[1].vals)] + [(f, [f.params[0].vals[0]], {}) for f in samef]
        plan += [(f, [v], {}) for f in dds for v in f.params[0].vals] + [(hist, [v, w], {}) for v in hist.params[0].vals for w in hist.params[1].vals]
        plan += [(f, [f.params[0].vals[0]], {}) for f in extra[nfixed:]] + [(yf, ["1"], {})] * 3
        plan += [(cfgf, [v, w], {}) for v, w in zip(cfgf.params[0].vals, cfgf.params[1].vals)]
        plan += [(f, ["Own()", w], {}) for f in owns for w in ("Own.Inner()", "None")]
        plan += [(ovf, [v], {}) for v in ovf.params[0].vals]
        plan = [x for x in plan if x[0] is not recf]  # rec_family is known from the directly written traces below only
        traces = modrun.trace_plan(tmod, path, m, plan, k)
        from monkeytype.tracing import CallTrace

        traces += [CallTrace(tmod.hist_family, {"a": int}, int), CallTrace(tmod.hist_family, {"a": str}, int), CallTrace(tmod.hist_family, {"a": float}, int)]
        # traces that differ in exactly one component (return type only, yield type only)
        traces += [CallTrace(tmod.hist_family, {"a": int}, str), CallTrace(tmod.yield_family, {"a": int}, None, bytes), CallTrace(tmod.yield_family, {"a": int}, None, float)]
        if k:
            # two calls of one generator that yielded the same two record shapes in opposite order: equal as types, two rows in the store
            import typing

            from vf.gen import types as gt

            def shapes():
                return gt.ev("TD({'rx': int}, {})"), gt.ev("TD({'ry': str, 'rz': int}, {})")

            (a1, b1), (a2, b2) = shapes(), shapes()
            traces += [CallTrace(tmod.rec_family, {"n": int}, None, typing.Union[a1, b1]), CallTrace(tmod.rec_family, {"n": int}, None, typing.Union[b2, a2]),
                       CallTrace(tmod.rec_family, {"n": str}, typing.Union[a1, b1], None), CallTrace(tmod.rec_family, {"n": str}, typing.Union[b2, a2], None)]
            res.count("traces_differing_only_in_union_member_order", 2)
        uniq = []
        seen = set()

        def okey(x):
            """Structure of a type INCLUDING the order of union members: two traces that differ only in that order are two stored rows."""
            import typing

            if x is None:
                return None
            if RT._is_typeddict_meta(x):
                return ["td", getattr(x, "__total__", True), sorted((n, okey(v)) for n, v in x.__annotations__.items())]
            args = getattr(x, "__args__", None)
            if args and typing.get_origin(x) is not None:
                return [str(typing.get_origin(x)), [okey(a) if not isinstance(a, (list, tuple)) and a is not Ellipsis else repr(a) for a in args]]
            return f"{getattr(x, '__module__', '')}.{getattr(x, '__qualname__', repr(x))}"

        def tkey(t):  # the harness's own notion of "distinct trace": never CallTrace.__eq__/__hash__
            return json.dumps([t.func.__module__, t.func.__qualname__, sorted((n, okey(x)) for n, x in (t.arg_types or {}).items()),
                               okey(t.return_type), okey(t.yield_type)])

        for t in traces:
            if tkey(t) not in seen:
                seen.add(tkey(t))
                uniq.append(t)
        res.count("traces_differing_only_in_yield", sum(1 for t in uniq if t.func.__name__ == "yield_family"))
        if len(uniq) > 1500:
            uniq = uniq[:1500]
        res.count("evaluations")
        res.count("distinct_traces", len(uniq))
        forms = []
        texts = []
        for v in range(spec["variants"]):
            vr = random.Random(f"{spec['seed']}:{v}")
            rows = list(uniq)
            vr.shuffle(rows)
            rows += vr.sample(rows, vr.randint(0, min(10, len(rows))))  # duplicates
            vr.shuffle(rows)
            db = os.path.join(d, f"{m.name}_{v}.sqlite3")
            write_store(db, rows, vr, {"batch": vr.choice([1, 5, 50, 10000]), "connections": vr.choice([1, 2])})
            env = core.child_env(extra_path=[d], hashseed=str(v % 8), MT_DB_PATH=db)
            # a limit that admits every distinct trace but not every stored row (duplicates must not use it up)
            lim = ["--limit", str(len(uniq) + 5)] if spec.get("tight_limit") else []
            if spec.get("tight_limit"):
                import sqlite3

                conn = sqlite3.connect(db)
                with conn:
                    conn.execute("INSERT INTO monkeytype_call_traces SELECT * FROM monkeytype_call_traces WHERE rowid % 3 != ?", (v % 3,))
                    conn.execute("INSERT INTO monkeytype_call_traces SELECT * FROM monkeytype_call_traces WHERE rowid % 2 = ?", (v % 2,))
                res.count("tight_limit_variants")
                res.count("stored_rows_with_duplicates", conn.execute("SELECT count(*) FROM monkeytype_call_traces").fetchone()[0])
                conn.close()
            r = core.run_py(["-m", "vf.mon.stub_child", str(vr.choice([0, 7, 300, 2000])), *lim, "-c", f"vf.mon.cfg:K{k}_{spec['rewriter']}", "stub", m.name], env=env, timeout=180)
            res.count("stub_runs")
            os.remove(db)
            if r.returncode != 0:
                res.violation("stub-command-fails", f"variant {v}: rc={r.returncode} {r.stderr[-300:]}", {"spec": spec, "variant": v})
                continue
            nf, se = normal_form(r.stdout, tmod)
            forms.append((v, nf))
            texts.append(r.stdout)
        if len(forms) < 2:
            continue
        base_v, base = forms[0]
        any_text_diff = False
        for (v, nf), text in zip(forms[1:], texts[1:]):
            res.count("variant_pairs")
            if text != texts[0]:
                any_text_diff = True
                res.count("pairs_with_different_text")
            dd = diff_nf(base, nf)
            coll = [x for x in dd if x.startswith("COLLISION ")]
            dd = [x for x in dd if not x.startswith("COLLISION ")]
            if coll:
                res.violation("typeddict-class-name-collision", f"{m.name} k={k} {spec['rewriter']}: variants {base_v} and {v} differ: {coll[0][:300]}",
                              {"spec": spec, "variants": [base_v, v], "diff": coll[:6]})
            if dd:
                key = "stub-depends-on-order-or-process"
                if any("R1" in x and "R2" in x for x in dd) or any(("R1" in x) != ("R2" in x) and ("X1" in x or "Union" in x or "R" in x) for x in dd):
                    key = "large-union-ancestor-depends-on-member-order" if spec["rewriter"] == "DEFAULT" else key
                res.violation(key, f"{m.name} k={k} {spec['rewriter']}: variants {base_v} and {v} differ: {dd[0][:300]}" + (f" (+{len(dd) - 1} more)" if len(dd) > 1 else ""),
                              {"spec": spec, "variants": [base_v, v], "diff": dd[:6]})
        if any_text_diff:
            res.count("sets_where_union_order_differed")
        res.shape(json.dumps([k, spec["rewriter"], len(uniq) // 20, sorted(base.get("functions", {}))[:5]]))
        res.sample({"module": m.name, "k": k, "rewriter": spec["rewriter"], "traces": len(uniq), "variants": len(forms)}, cap=1)
        modrun.unload(m, d)
    shutil.rmtree(d, ignore_errors=True)
    return res.out()


def run(ck):
    quick = ck.tier == "quick"
    nsets = 16 if quick else 200
    nvar = 8 if quick else 24
    specs = [{"name": f"vfm14_{ck.seed}_{i}", "seed": f"C14:{ck.seed}:{i}", "k": [0, 3][i % 2], "rewriter": ["DEFAULT", "NoOpRewriter"][(i // 2) % 2], "variants": nvar,
              "nfuncs": 8, "tight_limit": i % 4 == 3} for i in range(nsets)]
    specs.insert(0, {"name": f"vfm14_pinned_{ck.seed}", "seed": "C14:pinned", "k": 3, "rewriter": "NoOpRewriter", "variants": nvar, "nfuncs": 2, "collide": True})
    nsets += 1
    n = min(core.NPROC, nsets)
    for r in core.pmap("vf.props.c14:work", [{"sets": specs[i::n]} for i in range(n)], timeout=3400):
        ck.merge(r)
    ck.need("variant_pairs", 60)
    ck.need("collision_witness_sets", 1)
    ck.need("tight_limit_variants", 8)
    ck.need("traces_differing_only_in_yield", 10)
    ck.need("traces_differing_only_in_union_member_order", 8)
    ck.need("sets_where_union_order_differed", 3, "no pair of variants in which a union's member order actually differed")
    return ck.finish(
        rule="trace sets obtained by really tracing generated modules with wide value pools (unions of up to 8 classes incl. a multiple-"
        "inheritance family, TypedDict-worthy dicts) are written to SQLite stores under permutation, duplication and splitting into batches / "
        "connections; `stub` runs in separate interpreters with PYTHONHASHSEED 0..7 and perturbed memory layout, k in {0,3}, default and no "
        "rewriter; the parsed normal forms (imports, classes, per-position types with unions as sets and TypedDict classes inlined) must be "
        "equal. distinct = (k, rewriter, size class, functions)",
        assumptions=["union member order is explicitly allowed to vary", "trace sets stay below the query limit of 2000"],
    )


def replay(ck, path):
    data = json.load(open(path))
    sp = [c["witness"]["spec"] for c in data.get("cases", []) if c.get("witness") and "spec" in c["witness"]]
    ck.merge(work({"sets": sp[:3]}))
    return ck.finish(rule="replay of " + path)
