"""C02 - every completed call yields exactly one faithful call trace.  DESIGN 6 C02.
Also provides the tracing harness shared with C18."""
import gc
import importlib.util
import inspect
import json
import os
import random
import sys

from vf import core
from vf.gen import programs as gp
from vf.gen import values as gv
from vf.oracle import rt as RT


UNTYPABLE = ("untypable",)


class CountingLogger:
    def __init__(self):
        self.traces = []
        self.flushes = 0

    def log(self, trace):
        self.traces.append(trace)

    def flush(self):
        self.flushes += 1


def make_logger():
    from monkeytype.tracing import CallTraceLogger

    class L(CallTraceLogger, CountingLogger):
        def __init__(self):
            CountingLogger.__init__(self)

        log = CountingLogger.log
        flush = CountingLogger.flush

    return L()


def load_program(d, prog):
    path = os.path.join(d, prog["name"] + ".py")
    with open(path, "w") as f:
        f.write(prog["source"])
    spec = importlib.util.spec_from_file_location(prog["name"], path)
    mod = importlib.util.module_from_spec(spec)
    sys.modules[prog["name"]] = mod
    spec.loader.exec_module(mod)
    return mod, path


def unload(prog):
    sys.modules.pop(prog["name"], None)


def run_traced(mod, path, prog, k, sample_rate=None, with_flight=True, rng_seed=None):
    """-> (flight completions, logged traces, residue frames, driver results, flushes)"""
    from monkeytype.tracing import trace_calls
    import monkeytype.typing as mt
    from vf.mon.driver import run_entries
    from vf.mon.flight import Flight

    get_type = mt.get_type

    def typer(v):
        try:
            return RT.to_rt(get_type(v, k))
        except RecursionError:
            return UNTYPABLE  # e.g. a list that contains itself

    logger = make_logger()
    fl = Flight(path, typer) if with_flight else None
    if rng_seed is not None:
        random.seed(rng_seed)

    def flt(code):
        return code.co_filename == path

    results = []
    slots = {}
    if prog.get("pre"):
        run_entries(mod, prog["pre"], results, slots=slots, keep=True)
    with trace_calls(logger, k, flt, sample_rate):
        tracer = sys.getprofile()
        if rng_seed is not None:
            getattr(tracer, "_random", random).seed(rng_seed)  # replayable sampling draws (the tracer has its own generator)
        if fl:
            fl.start()
        try:
            run_entries(mod, prog["entries"], results, slots=slots)
        finally:
            if fl:
                fl.stop()
        gc.collect()
        # per-call state = any frame object still referenced from the tracer's own containers
        import types as _types

        residue = []
        for attr, val in vars(tracer).items():
            if isinstance(val, (dict, set, list, tuple, frozenset)):
                residue += [x for x in (val.keys() if isinstance(val, dict) else val) if isinstance(x, _types.FrameType)]
                if isinstance(val, dict):
                    residue += [x for x in val.values() if isinstance(x, _types.FrameType)]
    if fl:
        # what ended on a thread without the profile function is out of the tracer's sight: no trace is due for it, and the
        # frame it still remembers is not residue it could have cleared
        residue = [fr for fr in residue if id(fr) not in fl.off_thread_ids]
    return (fl.done if fl else None), logger.traces, residue, results, logger.flushes, (fl.live if fl else {})


def named_params(code):
    return code.co_varnames[: code.co_argcount + code.co_kwonlyargcount]


def extra_params(code):
    n = code.co_argcount + code.co_kwonlyargcount
    m = n + bool(code.co_flags & inspect.CO_VARARGS) + bool(code.co_flags & inspect.CO_VARKEYWORDS)
    return code.co_varnames[n:m]


def flavor(code):
    if code.co_flags & inspect.CO_COROUTINE:
        return "coroutine"
    if code.co_flags & inspect.CO_GENERATOR:
        return "generator"
    return "plain"


def compare(res, g, t, prog, k, prefix=""):
    """One flight completion against the trace logged for it.  Returns list of discrepancy keys."""
    out = []
    code = g["code"]
    wit = {"program": prog["name"], "function": g["qual"], "k": k}
    func_code = getattr(t.func, "__code__", None)
    if func_code is not code:
        out.append(("trace-attributed-to-wrong-function", f"{g['qual']}: trace.func={t.func!r}"))
        return out
    named = set(named_params(code))
    extras = set(extra_params(code))
    got = set(t.arg_types)
    if named - got - (named - set(g["args"])):
        out.append(("argument-missing", f"{g['qual']}: logged args {sorted(got)}, named parameters {sorted(named)}"))
    if got - named:
        what = "*args/**kwargs" if (got - named) <= extras else "non-parameters"
        out.append(("argument-extra", f"{g['qual']}: logged args {sorted(got)} include {what} (named parameters: {sorted(named)})"))
    for n in sorted(named & got & set(g["args"])):
        if g["args"][n] != UNTYPABLE and RT.to_rt(t.arg_types[n]) != g["args"][n]:
            out.append(("argument-type-differs", f"{g['qual']}({n}): logged {RT.show(RT.to_rt(t.arg_types[n]))}, value bound at call start had {RT.show(g['args'][n])}"))
            break
    if g["exc"] is not None:
        if t.return_type is not None:
            out.append(("return-type-on-exception-exit", f"{g['qual']} ended with {g['exc']} but return_type={t.return_type!r}"))
    else:
        if t.return_type is None and g["ret"] == UNTYPABLE:
            res.count("untypable_returns_traced_without_type")
        elif t.return_type is None:
            kind = "const-return" if g["const_return"] else "return"
            out.append((f"return-type-absent-after-{kind}:{flavor(code)}", f"{g['qual']} returned {RT.show(g['ret'])} but return_type is absent"))
        elif g["ret"] != UNTYPABLE and RT.to_rt(t.return_type) != g["ret"]:
            out.append(("return-type-differs", f"{g['qual']} returned {RT.show(g['ret'])}, logged {RT.show(RT.to_rt(t.return_type))}"))
    if not g["yields"]:
        if t.yield_type is not None:
            key = "yield-type-on-coroutine-await" if g["suspensions"] else "yield-type-without-yield"
            out.append((key, f"{g['qual']} never yielded (suspensions={g['suspensions']}) but yield_type={t.yield_type!r}"))
    else:
        exp = RT.union(g["yields"])
        if t.yield_type is None:
            out.append(("yield-type-absent", f"{g['qual']} yielded {RT.show(exp)} but yield_type is absent"))
        elif RT.to_rt(t.yield_type) != exp:
            out.append(("yield-type-differs", f"{g['qual']} yielded {RT.show(exp)}, logged {RT.show(RT.to_rt(t.yield_type))}"))
    return out


def align(res, G, L, residue, live, prog, k):
    """Exact alignment (no sampling): every must completion has its trace, in completion order."""
    labels = prog["labels"]
    j = 0
    wit = {"program": prog["name"], "k": k, "source": prog["source"], "entries": prog["entries"]}
    bad = []
    ended_at_yield = [g for g in G if g.get("how") == "unwind-at-suspended-yield"]
    corner = [g for g in G if g.get("reyield_none_at_throw_site")]
    if corner:
        # residual corner of the thrown-at-yield repair: the trace of such a generator may be logged early and
        # incomplete.  Judge the rest of the run without these frames and their traces.
        codes = {id(g["code"]) for g in corner}
        G = [g for g in G if id(g["code"]) not in codes]
        L = [t for t in L if id(getattr(t.func, "__code__", None)) not in codes]
        bad.append(("caught-throw-reyields-none-at-same-yield", f"{corner[0]['qual']}: an exception thrown into the suspended generator was caught "
                    "there and it yielded None again from the same yield instruction; its trace may be logged early and incomplete"))
    noff = sum(1 for g in G if g.get("off_thread"))
    if noff:
        res.count("completions_on_another_thread", noff)
        G = [g for g in G if not g.get("off_thread")]
    for g in G:
        res.count("completions")
        if g["qual"].endswith("<locals>.depth"):
            res.count("self_recursive_local_function_calls")
        res.seen("exit_kinds", ("exception" if g["exc"] else ("const-return" if g["const_return"] else "return")) + ":" + flavor(g["code"]))
        code = g["code"]
        res.seen("param_kinds", "po%d,n%d,ko%d,va%d,vk%d" % (
            min(code.co_posonlyargcount, 1), min(code.co_argcount - code.co_posonlyargcount, 1), min(code.co_kwonlyargcount, 1),
            bool(code.co_flags & inspect.CO_VARARGS), bool(code.co_flags & inspect.CO_VARKEYWORDS)))
        label = labels.get(g["qual"], "may")
        disc = None
        if UNTYPABLE in g["args"].values():
            # the type of a value bound at call start cannot be collected: no trace can be due for this call, and the next
            # logged trace of the same function belongs to a later call
            res.count("untypable_completions_without_trace")
            continue
        if j < len(L) and getattr(L[j].func, "__code__", None) is g["code"]:
            disc = compare(res, g, L[j], prog, k)
            if disc and g.get("how") == "unwind-at-suspended-yield":
                disc = None  # the next logged trace belongs to a later call of the same function
        if disc is not None:
            j += 1
            res.count("matched_traces")
            res.count("matched_" + label)
            bad.extend(disc)
        else:
            if g.get("how") == "unwind-at-suspended-yield":
                bad.append(("generator-ended-by-exception-at-suspended-yield", f"{g['qual']}: no trace logged (exception thrown at a suspended yield)"))
            elif g["ret"] == UNTYPABLE or UNTYPABLE in g["args"].values() or UNTYPABLE in g["yields"]:
                res.count("untypable_completions_without_trace")
            elif label == "must":
                bad.append((f"missing-trace:{flavor(g['code'])}", f"{g['qual']} completed ({'exception' if g['exc'] else 'return'}) but no trace was logged in order"))
            else:
                res.count("unresolvable_may_skipped")
    for t in L[j:]:
        bad.append(("spurious-or-out-of-order-trace", f"logged trace for {getattr(t.func, '__qualname__', t.func)!r} matches no completion in order"))
    # residue: frames still held by the tracer at quiescence
    live_frames = set(live)
    unexplained = 0
    for fr in residue:
        if fr in live_frames:
            continue  # still suspended and alive in the driver: not per-call residue yet
        unexplained += 1
    if unexplained:
        if len(ended_at_yield) >= unexplained:
            bad.append(("generator-ended-by-exception-at-suspended-yield", f"{unexplained} finished frame(s) still held in tracer.traces"))
        else:
            bad.append(("residue-in-tracer", f"{unexplained} finished frame(s) still referenced by the tracer at quiescence"))
    return bad


def shape_of(G):
    kinds = sorted({(g["qual"].split(".")[0][:1], flavor(g["code"]), bool(g["exc"]), len(g["yields"]) > 1) for g in G})
    return json.dumps(kinds)


def interleaving(G, flight_done):
    """Distinct orders in which live generator/coroutine frames completed relative to each other."""
    return ",".join(str(g["seq"]) for g in G if flavor(g["code"]) != "plain")[:200]


def work(p):
    res = core.Res()
    d = core.scratch("c02")
    sys.path.insert(0, d)
    if p.get("twin"):
        twin_case(res)
        same_site_case(res)
    for spec in p["programs"]:
        rng = random.Random(spec["seed"])
        opts = {}
        if spec.get("values"):
            opts["values"] = rng.sample([e for e in gv.BASIS if "lambda" not in e], 12)
        if spec.get("prestart"):
            opts["prestart"] = True
            res.count("prestart_programs")
        if spec.get("threads"):
            opts["threads"] = True
            res.count("thread_programs")
        if spec.get("literal"):
            prog = dict(spec["literal"], name=spec["name"])
            res.count("pinned_witnesses")
        else:
            prog = gp.build(rng, spec["name"], nfuncs=spec.get("nfuncs", 12), opts=opts, live=spec.get("live", 4), abandon=spec.get("abandon", False))
        k = spec["k"]
        res.count("evaluations")
        try:
            mod, path = load_program(d, prog)
        except Exception as e:
            res.count("generator_bug_program_does_not_import")
            res.violation("harness:program-does-not-import", f"{e!r}", {"source": prog["source"]})
            continue
        try:
            G, L, residue, results, flushes, live = run_traced(mod, path, prog, k)
        finally:
            pass
        res.count("logged_traces", len(L))
        bad = align(res, G, L, residue, live, prog, k)
        order = [g["qual"] for g in G if flavor(g["code"]) != "plain"]
        if len(set(order)) > 1:
            res.seen("interleavings", "|".join(order)[:300])
        res.shape(shape_of(G))
        if flushes != 1:
            bad.append(("flush-count", f"flush ran {flushes} times"))
        # control run: the recorder must not be what makes the tracer right or wrong
        if spec.get("control"):
            _, L2, residue2, results2, _, _ = run_traced(mod, path, prog, k, with_flight=False)
            res.count("control_runs")

            def sig(ts):
                return [(getattr(t.func, "__qualname__", "?"), tuple(sorted((n, RT.to_rt(v)) for n, v in t.arg_types.items())),
                         None if t.return_type is None else RT.to_rt(t.return_type), None if t.yield_type is None else RT.to_rt(t.yield_type)) for t in ts]

            if sig(L) != sig(L2) or results != results2:
                bad.append(("observer-effect", "the logged sequence differs when the flight recorder is switched off"))
        keys = sorted({b[0] for b in bad})
        for key in keys:
            texts = [b[1] for b in bad if b[0] == key]
            res.violation(key, f"{prog['name']} k={k}: " + texts[0] + (f" (+{len(texts) - 1} more)" if len(texts) > 1 else ""),
                          {"spec": spec, "discrepancies": texts[:6]})
        if not bad:
            res.sample({"program": prog["name"], "k": k, "completions": len(G), "logged": len(L),
                        "first": [f"{g['qual']}->{'exc' if g['exc'] else RT.show(g['ret'])}" for g in G[:5]]}, cap=1)
        unload(prog)
    sys.path.remove(d)
    return res.out()


def specs(ck, n, ks, abandon_frac=0.1, values_frac=0.15):
    out = []
    for i in range(n):
        r = ck.rng("prog", i)
        out.append({
            "name": f"vfprog_{ck.seed}_{i}", "seed": f"{ck.prop}:{ck.seed}:{i}", "k": r.choice(ks), "nfuncs": r.choice([8, 12, 16, 20]),
            "live": r.choice([2, 4, 6]), "abandon": r.random() < abandon_frac, "values": r.random() < values_frac, "control": i % 5 == 0, "prestart": i % 7 == 3, "threads": i % 6 == 1,
        })
    return out


def twin_case(res):
    """Identical functions in two modules (code objects equal up to the file name) must each get their own traces."""
    from monkeytype.tracing import trace_calls

    d = core.scratch("c02twin")
    src = "class P:\n    pass\n\n\nclass Q:\n    pass\n\n\ndef helper(a):\n    return a\n\n\nclass K:\n    def m(self, a):\n        return [a]\n"
    for n in ("vftwin_a", "vftwin_b"):
        open(os.path.join(d, n + ".py"), "w").write(src)
    sys.path.insert(0, d)
    try:
        import importlib

        importlib.invalidate_caches()
        a, b = importlib.import_module("vftwin_a"), importlib.import_module("vftwin_b")
        lg = make_logger()
        with trace_calls(lg, 0, lambda code: code.co_filename.startswith(d)):
            a.helper(a.P())
            b.helper(b.Q())
            b.K().m(b.P())
            a.K().m(a.Q())
        got = [(t.func.__module__, t.func.__qualname__, {n: getattr(v, "__qualname__", str(v)) for n, v in t.arg_types.items() if n != "self"}) for t in lg.traces]
        want = [("vftwin_a", "helper", {"a": "P"}), ("vftwin_b", "helper", {"a": "Q"}), ("vftwin_b", "K.m", {"a": "P"}), ("vftwin_a", "K.m", {"a": "Q"})]
        res.count("evaluations")
        res.count("twin_cases")
        if got != want:
            res.violation("identical-functions-in-two-modules-conflated", f"logged {got}, expected {want}", {"twin": True})
        # a filter that tells the twins apart by file: the copy it rejects runs first in one block and second in the next
        for order in ("rejected-first", "admitted-first"):
            lg = make_logger()
            afile = a.__file__
            with trace_calls(lg, 0, lambda code: code.co_filename == afile):
                for mod in ((b, a) if order == "rejected-first" else (a, b)):
                    mod.helper(mod.P())
                    mod.K().m(mod.Q())
            got = [(t.func.__module__, t.func.__qualname__) for t in lg.traces]
            want = [("vftwin_a", "helper"), ("vftwin_a", "K.m")]
            res.count("evaluations")
            res.count("twin_cases_with_a_filter_that_tells_them_apart")
            if got != want:
                res.violation("filter-verdict-of-one-file-applied-to-its-twin", f"{order}: logged {got}, expected {want}", {"twin": True, "order": order})
    finally:
        sys.path.remove(d)
        sys.modules.pop("vftwin_a", None)
        sys.modules.pop("vftwin_b", None)


def same_site_case(res):
    """Different functions that share file name, first line and name (a module edited and reloaded while tracing; generated
    methods compiled from one pseudo file, as dataclass-style code generators do) must each be attributed to the code that ran."""
    import importlib

    from monkeytype.tracing import trace_calls

    d = core.scratch("c02site")
    path = os.path.join(d, "vfsite_mod.py")
    v1 = "class P:\n    pass\n\n\ndef helper(a):\n    return a\n\n\nclass K:\n    def m(self, a):\n        return a\n"
    v2 = "class P:\n    pass\n\n\ndef helper(a, b=1):\n    return (a, b)\n\n\nclass K:\n    def m(self, a, c=''):\n        return [a]\n"
    open(path, "w").write(v1)
    sys.path.insert(0, d)
    try:
        importlib.invalidate_caches()
        mod = importlib.import_module("vfsite_mod")
        genfile = os.path.join(d, "vfsite_generated.py")

        def make_class(name, fields):
            src = "def __init__(self, " + ", ".join(fields) + "):\n" + "".join(f"    self.{f} = {f}\n" for f in fields)
            ns = {"__name__": "vfsite_mod"}
            exec(compile(src, genfile, "exec"), ns)  # noqa: S102 - what dataclass-style generators do
            fn = ns["__init__"]
            fn.__qualname__ = name + ".__init__"
            cls = type(name, (), {"__init__": fn, "__module__": "vfsite_mod"})
            setattr(mod, name, cls)
            return cls

        Point, Label = make_class("Point", ["x", "y"]), make_class("Label", ["text"])
        lg = make_logger()
        ran = []
        with trace_calls(lg, 0, lambda code: code.co_filename.startswith(d)):
            mod.helper(1)
            ran.append((mod.helper.__code__, ["a"]))
            mod.K().m(1)
            ran.append((mod.K.m.__code__, ["self", "a"]))
            Point(1, 2)
            ran.append((Point.__init__.__code__, ["self", "x", "y"]))
            Label("s")
            ran.append((Label.__init__.__code__, ["self", "text"]))
            # the module is edited (same lines, other signatures) and reloaded while the tracer stays installed
            open(path, "w").write(v2)
            os.utime(path, (1, 1))
            importlib.invalidate_caches()
            mod = importlib.reload(mod)
            mod.helper("s")
            ran.append((mod.helper.__code__, ["a", "b"]))
            mod.K().m("s")
            ran.append((mod.K.m.__code__, ["self", "a", "c"]))
        res.count("evaluations")
        res.count("same_definition_site_cases")
        got = [(t.func.__qualname__, t.func.__code__ is code, sorted(t.arg_types) == sorted(names)) for t, (code, names) in zip(lg.traces, ran)]
        if len(lg.traces) != len(ran) or not all(g[1] and g[2] for g in got):
            res.violation("functions-sharing-a-definition-site-conflated",
                          f"{len(lg.traces)} traces for {len(ran)} calls; per call (qualname, func is the code that ran, argument names match): {got}", {"same_site": True})
    finally:
        sys.path.remove(d)
        sys.modules.pop("vfsite_mod", None)


def pinned(prop):
    """Pinned witnesses of listed findings (findings/<prop>/*.json): executed first in both tiers."""
    d = os.path.join(core.VERIF, "findings", prop)
    out = []
    if os.path.isdir(d):
        for f in sorted(os.listdir(d)):
            if f.endswith(".json"):
                w = json.load(open(os.path.join(d, f)))
                if "spec" in w:
                    out.append(w["spec"])
    return out


def run(ck):
    quick = ck.tier == "quick"
    sp = specs(ck, 2500 if quick else 40000, [0, 3] if quick else [0, 1, 3, 10])
    n = core.NPROC * (2 if quick else 16)
    payloads = [{"programs": pinned("C02"), "twin": True}] + [{"programs": sp[i::n]} for i in range(n)]
    for r in core.pmap("vf.props.c02:work", payloads, timeout=3400):
        ck.merge(r)
    ck.need("completions", 5000)
    ck.need("matched_must", 3000)
    ck.need("interleavings", 50, "fewer than 50 distinct interleaving orders of live frames")
    ck.need("control_runs", 20)
    from vf.props import sessions

    sessions.run_into(ck, "C02", 32 if quick else 300)
    ck.need("late_bound_function_judgements", 20, "no session block judged the function that was unfindable in an earlier block")
    ck.need("twin_cases", 1)
    ck.need("same_definition_site_cases", 1)
    ck.need("prestart_programs", 50)
    ck.need("completions_on_another_thread", 100, "no generator was finished by a worker thread")
    ck.need("untypable_completions_without_trace", 50, "no call returned a value whose type cannot be collected")
    ck.need("self_recursive_local_function_calls", 50)
    for ek in ("exception:plain", "const-return:plain", "return:plain", "return:generator", "const-return:generator", "exception:generator",
               "return:coroutine", "const-return:coroutine", "exception:coroutine"):
        ck.counters["exit:" + ek] = 1 if ek in ck.sets.get("exit_kinds", ()) else 0
        ck.need("exit:" + ek, 1, "exit kind x function flavour never completed")
    ck.need("param_kinds", 12)
    return ck.finish(
        rule="seeded generated programs (module functions, instance/class/static methods, properties, overrides with super(), inherited "
        "methods, nested-class methods, closures, functools.wraps, recursion, all parameter kinds, generators incl. yield from, "
        "coroutines that really suspend; exits by constant/expression/implicit return and exception) run under trace_calls with a "
        "counting logger while a sys.monitoring flight recorder records ground truth; offline alignment in completion order. "
        "distinct = set of (owner kind, flavour, exit, multi-yield) in the program",
        assumptions=["sys.monitoring is the ground truth for what the program did (CPython 3.12.1)",
                     "'the type of a value' is the real get_type compared structurally (C04/C05 judge get_type itself); per-site marker classes make mix-ups visible",
                     "functions labelled 'may' (closures, wrappers, static methods of nested classes) need not be resolvable; a trace that is logged must be faithful"],
    )


def replay(ck, path):
    data = json.load(open(path))
    sp = [c["witness"]["spec"] for c in data.get("cases", []) if c.get("witness") and "spec" in c["witness"]]
    ck.merge(work({"programs": sp}))
    return ck.finish(rule="replay of " + path)
