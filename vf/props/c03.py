"""C03 - tracing never changes what the traced program does.  DESIGN 6 C03."""
import itertools
import json
import os
import random
import shutil
import subprocess

from vf import core
from vf.mon import tripwire as TW

HEADER = '''from collections import defaultdict
from vf.mon.tripwire import *  # noqa
import vf.mon.tripwire as tw

G = None
helper = None


def take(x):
    return 1


def warn_item(d, l):
    import warnings

    warnings.warn("old spelling used", UserWarning)
    return d


def ret(x):
    return x


def gen(x):
    yield x
    yield 1


def take2(a, b=None, *args, k=None, **kw):
    return 2


class K:
    def m(self, x):
        return x

    @staticmethod
    def sm(x):
        return x

    @classmethod
    def cm(cls, x):
        return x

    @property
    def p(self):
        return 1


def same_named():
    def helper(v):
        return v
    return helper(1)


def call_nested_named(obj):
    def d(o):
        return 1

    def lazy(o):
        return 2
    return d(obj) + lazy(obj)


class Holder2:
    pass


def call_nested_named2(obj):
    def d2(o):
        return 1
    return d2(obj)


class PGA(GA):
    def m(self, v):
        return 1


class PGN(GN):
    def m(self, v):
        return 1


class PCP(CP):
    def m(self, v):
        return 1


class PCPlie(CPlie):
    def m(self, v):
        return 1


class PLazy(Lazy):
    def m(self, v):
        return 1


class PDS(DS):
    def m(self, v):
        return 1

    @staticmethod
    def psm(v):
        return v


class PTL(TL):
    def m(self, v):
        return 1


class PTD(TD):
    def m(self, v):
        return 1


class PHB(HB):
    def m(self, v):
        return 1


class PMI(MI):
    def m(self, v):
        return 1

    @classmethod
    def pcm(cls, v):
        return 1

'''

PLACEMENTS = {
    "arg": "return take(x)",
    "ret": "return ret(x)",
    "yield": "return len(list(gen(x)))",
    "elem_list": "return take([x, 1])",
    "elem_tuple": "return take((x, 'a'))",
    "dict_val": "return take({'k': x})",
    "dict_key": "return take({x: 1})",
    "set_elem": "return take({x})",
    "nested": "return take([{'k': (x,)}, []])",
    "defaultdict_val": "return take(defaultdict(int, {'a': x}))",
    "kwargs": "return take2(1, k=x, extra=x)",
    "varargs": "return take2(1, 2, x, x)",
    "method_arg": "return K().m(x)",
    "static_arg": "return K.sm(x)",
    "class_arg": "return K.cm(x)",
    "property": "return K().p",
    "global": "global G\n    G = x\n    try:\n        return K.sm(1)\n    finally:\n        G = None",
    "same_named_global": "global helper\n    helper = x\n    try:\n        return same_named()\n    finally:\n        helper = None",
    "caller_local": "loc = x\n    f = lambda v: v  # noqa\n    return f(1)",
    "nested_named": "return call_nested_named(x)",
    "class_attr_named": "Holder2.d2 = x\n    try:\n        return call_nested_named2(Holder2())\n    finally:\n        del Holder2.d2",
}
SELF_KINDS = {"GA": "PGA('{l}')", "GN": "PGN('{l}')", "CP": "PCP('{l}')", "CPlie": "PCPlie('{l}')", "Lazy": "PLazy('{l}')", "DS": "PDS('{l}')",
              "TL": "PTL([1])", "TD": "PTD(a=1)", "HB": "PHB('{l}')", "MI": "PMI('{l}')"}


def all_combos():
    out = []
    for kind in TW.KINDS:
        for pl in PLACEMENTS:
            if pl in ("dict_key", "set_elem") and kind not in TW.HASHABLE:
                continue
            out.append((kind, pl))
        if kind in SELF_KINDS:
            out.append((kind, "self"))
            if kind == "DS":
                out.append((kind, "self_static"))
            if kind == "MI":
                out.append((kind, "self_class"))
    return out


def build_program(combos):
    lines = [HEADER]
    names = []
    for i, (kind, pl) in enumerate(combos):
        label = f"c{i}_{kind}_{pl}"
        fn = f"combo_{i}"
        names.append((label, fn))
        lines.append(f"def {fn}():")
        lines.append(f"    _fin = Fin({label!r})  # release time of this call's locals is observed by main()")
        if pl == "self":
            lines.append(f"    x = {SELF_KINDS[kind].format(l=label)}")
            if kind in ("TL", "TD"):
                lines.append(f"    x._label = {label!r}")
            lines.append(f"    tw.ARMED.add({kind!r})")
            lines.append("    return x.m(1)")
        elif pl == "self_static":
            lines.append("    return PDS.psm(1)")
        elif pl == "self_class":
            lines.append("    return PMI.pcm(1)")
        else:
            lines.append(f"    x = mk({kind!r}, {label!r})")
            lines.append("    " + PLACEMENTS[pl])
        lines.append("")
        lines.append("")
    lines.append("COMBOS = [" + ", ".join(f"({lab!r}, {fn})" for lab, fn in names) + "]")
    lines.append('''

def main():
    import random

    random.seed(20240229)  # the program's own use of the global random number generator
    R = []
    for name, fn in COMBOS:
        n0 = tw.COUNTER["n"]
        try:
            r = fn()
            o = ["ok", type(r).__name__]
        except Exception as e:
            o = ["exc", type(e).__name__]
        R.append([name] + o + [tw.COUNTER["n"] - n0, ("fin:" + name) in tw.EVENTS])
    R.append(["program-random-stream", "ok", repr(random.random()), 0, True])
    # the program's own warnings: the same warning from one location is shown once (default action); the registry that remembers it
    # is the interpreter's global warnings state, which a tracer must leave alone
    import warnings

    shown = []
    orig_show = warnings.showwarning
    warnings.showwarning = lambda *a, **kw: shown.append(str(a[0]))
    try:
        for i in range(4):
            warn_item({"wa": i, "wb": "x"}, [i])
    finally:
        warnings.showwarning = orig_show
    R.append(["program-warnings-shown", "ok", str(len(shown)), 0, True])
    print("done", len(R), tw.COUNTER["n"])
    return R
''')
    return "\n".join(lines)


def run_child(d, spec, tag):
    sp = os.path.join(d, f"spec_{tag}.json")
    json.dump(spec, open(sp, "w"))
    r = core.run_py(["-X", "faulthandler", "-m", "vf.mon.c03_child", sp], timeout=180)
    if r.returncode != 0 or "VFREPORT " not in (r.stdout or ""):
        return None, f"rc={r.returncode} stderr={r.stderr[-800:]}"
    return json.loads(r.stdout.rsplit("VFREPORT ", 1)[1]), r.stderr


def hook_key(hook, site):
    if hook in ("metaclass.__hash__", "metaclass.__eq__"):
        # class objects are hashed / compared wherever types are put into typing generics, sets and caches: one mechanism per
        # source file (listed findings for the files where the representation of types makes it unavoidable)
        return f"class-object-hashed-or-compared-via-its-metaclass@{site}"
    if hook.startswith("metaclass.__getattribute__:") and site.startswith("encoding.py:"):
        # serialising a class reads its __module__ / __qualname__ / __args__ the ordinary way, i.e. through the metaclass
        return "class-attributes-read-through-its-metaclass-when-serialising@encoding.py"
    return f"user-code-run-by-tracer:{hook}@{site}"


def judge(res, un, tr, spec, wit):
    """Differential + journal + containment + profiler/flush judgement of one (untraced, traced) pair."""
    bad = []
    surplus_labels = set()
    for hook, label, site in tr["journal"]:
        if site is not None:
            surplus_labels.add(label)
            bad.append((hook_key(hook, site), f"tracer invoked {hook} of {label} (from {site})"))
    for hook, label, site in un["journal"]:
        if site is not None:
            bad.append(("harness:untraced-run-saw-monkeytype-frame", f"{hook} {label} {site}"))
    res.count("journal_entries", len(tr["journal"]))
    res.count("hook_surplus", sum(1 for j in tr["journal"] if j[2] is not None))
    # program's own hook calls must be the same in both runs
    own_u = sorted((h, l) for h, l, s in un["journal"] if s is None)
    own_t = sorted((h, l) for h, l, s in tr["journal"] if s is None)
    if own_u != own_t:
        diff = [x for x in own_t if x not in own_u][:3] + [x for x in own_u if x not in own_t][:3]
        bad.append(("program-hook-journal-differs", f"the program's own hook invocations differ between the runs: {diff}"))
    if "MI" in surplus_labels:
        surplus_labels |= {r[0] for r in (un.get("results") or []) if "_MI" in r[0]}
    if "MH" in surplus_labels:
        surplus_labels |= {r[0] for r in (un.get("results") or []) if "_MH" in r[0]}
    ru = {r[0]: r[1:] for r in un.get("results") or []}
    rt = {r[0]: r[1:] for r in tr.get("results") or []}
    if set(ru) != set(rt):
        bad.append(("results-differ", f"different set of workload items completed: {sorted(set(ru) ^ set(rt))[:4]}"))
    for name in sorted(set(ru) & set(rt)):
        a, b = ru[name], rt[name]
        res.count("result_judgements")
        if a[:2] != b[:2]:
            bad.append(("results-differ", f"{name}: untraced {a[:2]} traced {b[:2]}"))
        elif a[3:4] != b[3:4]:
            bad.append(("locals-outlive-the-call", f"{name}: the call's locals were released right after it returned: untraced {a[3:4]}, traced {b[3:4]}"))
        elif a[2] != b[2] and not any(name == lab or lab.startswith(name) for lab in surplus_labels):
            bad.append(("visible-state-differs", f"{name}: hook counter untraced {a[2]} traced {b[2]}"))
    if un["stdout"] != tr["stdout"]:
        cu, ct = un["stdout"].split(), tr["stdout"].split()
        if not (surplus_labels and cu[:2] == ct[:2]):
            bad.append(("stdout-differs", f"untraced {un['stdout']!r:.80} traced {tr['stdout']!r:.80}"))
    gu, gtr = un.get("global_state") or {}, tr.get("global_state") or {}
    for key in sorted(set(gu) | set(gtr)):
        res.count("global_state_judgements")
        if gu.get(key) != gtr.get(key):
            bad.append((f"interpreter-state-differs:{key}", f"after the block {key} is {str(gtr.get(key))[:120]} (untraced run: {str(gu.get(key))[:120]})"))
    if un.get("escaped"):
        bad.append(("harness:untraced-run-raised", un["escaped"]))
    if tr.get("escaped"):
        flt = ",".join(sorted(spec.get("faults", {}))) or "none"
        where = "flush" if "flush fails" in tr["escaped"] else ("injected" if "injected" in tr["escaped"] else "other")
        bad.append((f"exception-reaches-program:{where}", f"faults={flt}: {tr['escaped']} escaped the traced block"))
    if bool(un.get("block_exception_seen")) != bool(tr.get("block_exception_seen")) and not tr.get("escaped"):
        flt = ",".join(sorted(spec.get("faults", {}))) or "none"
        bad.append(("block-exception-swallowed" if un.get("block_exception_seen") else "block-exception-invented",
                    f"faults={flt}: the traced block's own exception reached the caller untraced={bool(un.get('block_exception_seen'))} traced={bool(tr.get('block_exception_seen'))}"))
    res.count("block_exits_by_exception_compared", 1 if un.get("block_exception_seen") else 0)
    if not tr.get("profiler_restored"):
        bad.append(("profiler-not-restored", f"after the block sys.getprofile() is {tr.get('profiler_after')}"))
    if tr.get("flushes") != 1:
        bad.append(("flush-count", f"flush ran {tr.get('flushes')} times"))
    for f in spec.get("faults", {}):
        res.count("fault_plans_" + ("fired" if tr["fired"].get(f) else "not_fired"))
    res.count("tracer_callbacks", tr.get("tracer_callbacks", 0))
    if spec.get("store_logger"):
        res.count("runs_with_the_shipped_store_logger")
    if spec.get("program_sets_profile"):
        res.count("program_sets_profile_runs" + ("_with_preinstalled_profiler" if spec.get("preprofiler") else ""))
    for kd in tr.get("armed", []):
        res.seen("hook_kinds_armed", kd)
    return bad


def work(p):
    res = core.Res()
    d = core.scratch("c03")
    for w in p["workloads"]:
        res.count("evaluations")
        combos = [tuple(c) for c in w["combos"]]
        path = os.path.join(d, f"vfc03_{w['id']}.py")
        open(path, "w").write(build_program(combos))
        base = {"program": path, "k": w.get("k", 0), "exit": w.get("exit", "return"), "hostile_sys_modules": w.get("default_filter", False)}
        un, err = run_child(d, dict(base, mode="untraced"), f"{w['id']}u")
        tspec = dict(base, mode="traced", faults=w.get("faults", {}), preprofiler=w.get("preprofiler", False), store_logger=w.get("store_logger", False),
                     program_sets_profile=w.get("program_sets_profile", False), sample_rate=w.get("sample_rate"), default_filter=w.get("default_filter", False))
        if w.get("default_filter"):
            res.count("runs_with_the_default_filter_and_an_allow_list")
        tr, err2 = run_child(d, tspec, f"{w['id']}t")
        wit = {"workload": w}
        if un is None or tr is None:
            res.violation("child-failed:" + ("untraced" if un is None else "traced"), (err if un is None else err2), wit)
            continue
        bad = judge(res, un, tr, tspec, wit)
        res.shape(json.dumps([sorted({c[0] for c in combos}), sorted(w.get("faults", {})), w.get("exit"), w.get("preprofiler")]))
        for key in sorted({b[0] for b in bad}):
            texts = [b[1] for b in bad if b[0] == key]
            res.violation(key, f"workload {w['id']}: {texts[0]}" + (f" (+{len(texts) - 1} more)" if len(texts) > 1 else ""), {"workload": w, "texts": texts[:5]})
        if not bad:
            res.sample({"workload": w["id"], "combos": combos[:3], "faults": w.get("faults"), "callbacks": tr.get("tracer_callbacks")}, cap=1)
        os.remove(path)
    shutil.rmtree(d, ignore_errors=True)
    return res.out()


FAULT_SITES = {
    "log1": {"log": [1]}, "log5": {"log": [5]}, "logall": {"log": "all"}, "flush": {"flush": True},
    "get_type1": {"get_type": [1]}, "get_type7": {"get_type": [7]}, "get_typeall": {"get_type": "all"},
    "get_func1": {"get_func": [1]}, "get_func3": {"get_func": [3]}, "get_funcall": {"get_func": "all"},
}


def merge_faults(names):
    out = {}
    for n in names:
        for k, v in FAULT_SITES[n].items():
            if k in out and isinstance(out[k], list) and isinstance(v, list):
                out[k] = sorted(set(out[k]) | set(v))
            else:
                out[k] = v
    return out


def run(ck):
    quick = ck.tier == "quick"
    combos = all_combos()
    rs = ck.rng("w")
    workloads = []
    wid = 0
    # (a)+(b): every (kind, placement) combo, in small groups so a crash of one cannot hide many
    order = list(combos)
    rs.shuffle(order)
    size = 12
    for rep in range(6 if quick else 60):
        for i in range(0, len(order), size):
            wid += 1
            workloads.append({"id": wid, "combos": order[i:i + size], "k": [0, 3, 3, 0][rep % 4], "exit": rs.choice(["return", "exception"]),
                              "preprofiler": rs.random() < 0.5, "program_sets_profile": wid % 4 == 0, "sample_rate": [None, None, 2, 5][wid % 4],
                              "store_logger": wid % 3 == 1, "default_filter": wid % 5 == 2})
        rs.shuffle(order)
    # pinned witnesses of the listed findings (findings/C03/*.json), first in both tiers
    fdir = os.path.join(core.VERIF, "findings", "C03")
    for fn in sorted(os.listdir(fdir)) if os.path.isdir(fdir) else []:
        wid += 1
        w = json.load(open(os.path.join(fdir, fn)))["workload"]
        workloads.insert(0, dict(w, id=f"pinned{wid}", combos=[tuple(c) for c in w["combos"]]))
        ck.count("pinned_witnesses")
    # (c)+(d): fault plans x exit x pre-installed profiler
    plain = [c for c in combos if c[0] in ("HB", "TL", "TD", "DS", "MI") and c[1] in ("arg", "ret", "yield", "method_arg", "static_arg", "nested")]
    raising = [c for c in combos if c[0] == "CPraise"]
    singles = sorted(FAULT_SITES)
    plans = [[s] for s in singles] + [list(p) for p in itertools.combinations(singles, 2) if FAULT_SITES[p[0]].keys() != FAULT_SITES[p[1]].keys()]
    if quick:
        plans = [[s] for s in singles] + rs.sample(plans[len(singles):], 26)
    for plan in plans:
        for ex, pre in ([("return", False), ("exception", True)] if quick else itertools.product(["return", "exception"], [False, True])):
            wid += 1
            cs = rs.sample(plain, 8) + rs.sample(raising, 2)
            workloads.append({"id": wid, "combos": cs, "k": rs.choice([0, 3]), "exit": ex, "preprofiler": pre, "faults": merge_faults(plan)})
    n = core.NPROC
    for r in core.pmap("vf.props.c03:work", [{"workloads": workloads[i::n]} for i in range(n)], timeout=3400):
        ck.merge(r)
    for kd in TW.KINDS:
        ck.counters["armed:" + kd] = 1 if kd in ck.sets.get("hook_kinds_armed", ()) else 0
        ck.need("armed:" + kd, 1, "hook kind never armed on an object the tracer saw")
    ck.need("tracer_callbacks", 2000)
    ck.need("fault_plans_fired", 20)
    ck.need("runs_with_the_shipped_store_logger", 20)
    ck.need("runs_with_the_default_filter_and_an_allow_list", 10)
    ck.need("program_sets_profile_runs_with_preinstalled_profiler", 3)
    if ck.counters.get("fault_plans_not_fired"):
        ck.note(f"{ck.counters['fault_plans_not_fired']} fault sites never fired in their workload (too few calls)")
    ck.need("result_judgements", 300)
    return ck.finish(
        rule="workloads = groups of (tripwire kind x placement) items (every kind in every placement: argument, return, yield, container "
        "element/key/value, receiver, module global, same-named global, callable local of the caller) each run untraced and traced in "
        "fresh interpreters; plus fault plans (every single and sampled/all double faults over log/flush/get_type/get_func failures and "
        "values whose inspection raises) x block exit x pre-installed profiler. distinct = (tripwire kinds, fault sites, exit, profiler)",
        assumptions=["a journal entry whose stack contains a monkeytype frame is user code executed by the tracer",
                     "messages written through the `monkeytype` loggers are not program output"],
    )


def replay(ck, path):
    data = json.load(open(path))
    ws = [c["witness"]["workload"] for c in data.get("cases", []) if c.get("witness") and "workload" in c["witness"]]
    ck.merge(work({"workloads": ws}))
    return ck.finish(rule="replay of " + path)
