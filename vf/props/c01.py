"""C01 - emitted annotations admit every value seen at runtime (run -> store -> stub).  DESIGN 6 C01.
The same worker also produces the end-to-end part of C06 (rows and stub classes against k)."""
import io
import json
import os
import random
import sqlite3
import sys

from vf import core
from vf.gen import modules as gm
from vf.mon import cfg as CFG
from vf.mon import record
from vf.oracle import rt as RT
from vf.oracle.conform import member, Unverifiable
from vf.oracle.stubeval import StubEval
from vf.props import modrun

KS = [0, 1, 2, 3, 10]
FLAGS = {"default": ([], []), "ignore": ([], ["--ignore-existing-annotations"]), "omit": ([], ["--omit-existing-annotations"]),
         "norewrite": (["--disable-type-rewriting"], [])}

DRIVER = '''import json
import {mod} as T
from vf.props import modrun
from vf.mon import record
modrun.drive_json(T, json.load(open({plan!r})), record.RECORDS)
'''


def cli(argv):
    from monkeytype import cli as mcli

    out, err = io.StringIO(), io.StringIO()
    try:
        rc = mcli.main(argv, out, err)
    except SystemExit as e:
        rc = f"SystemExit({e.code})"
    except Exception as e:  # noqa
        import traceback

        return "raised", out.getvalue(), err.getvalue() + "".join(traceback.format_exception(type(e), e, e.__traceback__))[-1500:]
    return rc, out.getvalue(), err.getvalue()


def judge_stub(res, text, tmod, m, records, k, cfgname, flag, wit):
    """Every recorded value against the annotation of its position in the stub text."""
    keys = {}

    def bad(key, txt):
        keys.setdefault(key, []).append(txt)

    se = StubEval(text, tmod)
    if se.syntax_error:
        bad("stub-does-not-parse", se.syntax_error)
        return keys
    collided = se.collided_closure()
    stats = {}
    text_annotated = {f"{f.qual}({p_.name})" for f in m.funcs for p_ in f.params if p_.ann and p_.ann.startswith(("'", '"'))}
    text_annotated |= {f"{f.qual}(return)" for f in m.funcs if f.ret_ann and f.ret_ann.startswith(("'", '"'))}
    text_annotated |= set(wit.get("spec", {}).get("literal", {}).get("text_annotated", ()))
    for rec in records:
        info = se.funcs.get(rec["qual"])
        if info is None:
            res.count("calls_of_functions_absent_from_stub")
            continue
        params = {p[0]: p for p in info.params()}
        items = [(n, v, params[n][2]) for n, v in rec["bound"].items() if n in params and params[n][1] in ("posonly", "normal", "kwonly")]
        for name, value, node in items:
            if node is None:
                res.count("positions_without_annotation")
                continue
            where = f"{rec['qual']}({name})"
            t = se.ann_rt(node, where)
            if t is None:
                continue  # event already recorded
            judge_member(res, bad, value, t, where, node, collided, stats)
        node = info.node.returns
        if node is None:
            res.count("positions_without_annotation")
            continue
        where = f"{rec['qual']}(return)"
        t = se.ann_rt(node, where)
        if t is None:
            continue
        spec = next(f for f in m.funcs if f.qual == rec["qual"])
        if spec.flavor == "gen":
            if t[0] == "iterator":
                yt, rt_ = t[1], RT.NONE
            elif t[0] == "generator":
                yt, rt_ = t[1], t[3]
            else:
                res.count("unverifiable_generator_annotation")
                continue
            for y in rec["yields"]:
                judge_member(res, bad, y, yt, where + "[yield]", node, collided, stats)
            if rec["returned"]:
                judge_member(res, bad, rec["result"], rt_, where + "[generator return]", node, collided, stats)
        elif rec["returned"]:
            judge_member(res, bad, rec["result"], t, where, node, collided, stats)
    res.count("unverifiable_elements", stats.get("unverifiable_elements", 0))
    # what the evaluator met while reading the stub AND while evaluating the annotations above (a name no import provides surfaces there)
    seen_ev = set()
    for kind, detail, loc in se.events:
        if (kind, detail, loc) in seen_ev:
            continue
        seen_ev.add((kind, detail, loc))
        if kind == "typeddict-class-name-collision":
            res.count("stubs_with_typeddict_class_name_collision")  # matters for C01 only where a value is then rejected
        elif kind != "function-duplicated":
            if kind == "name-not-provided-by-stub" and loc in text_annotated:
                # the source annotation of this position is TEXT (quoted / PEP 563): it is copied into the stub as written, and the stub
                # imports nothing for the names it uses (listed finding)
                kind = "text-annotation-replicated-without-its-imports"
            bad(kind, f"{loc}: {detail}")
    return keys


def judge_member(res, bad, value, t, where, node, collided, stats):
    import ast

    res.count("membership_judgements")
    if t[0] in ("union",):
        res.count("judged_at_union")
    if any(x[0] in ("list", "set", "dict", "defaultdict", "tuple") for x in RT.walk(t)):
        res.count("judged_at_container")
    if RT.td_nodes(t):
        res.count("judged_at_typeddict")
    if RT.has_unknown(t):
        res.count("unverifiable_unknown_annotation")
        return
    try:
        ok = member(value, t, stats)
    except Unverifiable:
        res.count("unverifiable_unknown_annotation")
        return
    if not ok:
        src = ast.unparse(node)
        key = "value-not-admitted-by-annotation"
        if any(c in src for c in collided):
            key = "typeddict-class-name-collision"
        bad(key, f"{where}: value {value!r:.80} is not a member of {src} = {RT.show(t)}")


def judge_c06(res6, text, db, k, wit, cross=None):
    se = StubEval(text)
    if "DUMMY_NAME" in text:
        # an anonymous TypedDict that reached the stub without a class of its own (nothing rendered it): a TypedDict all the same
        sfx0 = ":store-written-under-larger-limit" if cross else ""
        res6.violation(("typeddict-in-stub-with-limit-zero" if k == 0 else "unrendered-typeddict-in-stub") + sfx0,
                       f"the stub (limit {k}) refers to an anonymous TypedDict: " + next(ln.strip() for ln in text.splitlines() if "DUMMY_NAME" in ln and "import" not in ln)[:200]
                       if any("DUMMY_NAME" in ln and "import" not in ln for ln in text.splitlines()) else f"the stub (limit {k}) imports DUMMY_NAME", wit)
    collided = {loc.split()[-1] for kind, _d, loc in se.events if kind == "typeddict-class-name-collision"}
    for name, n in (se.typeddict_classes() if not se.syntax_error else []):
        if any(name.split("#")[0].startswith(c) or c.startswith(name.split("#")[0]) for c in collided):
            res6.count("stub_typeddict_classes_skipped_name_collision")
            continue
        res6.count("stub_typeddict_classes")
        sfx = ":store-written-under-larger-limit" if cross else ""
        note = f" ({cross})" if cross else ""
        if k == 0:
            res6.violation("typeddict-class-in-stub-with-limit-zero" + sfx, f"class {name} in a stub generated with limit 0{note}", wit)
        elif n > k:
            res6.violation("typeddict-class-over-limit-in-stub" + sfx, f"class {name} has {n} fields, limit {k}{note}", wit)
        elif n == 0:
            res6.violation("empty-typeddict-class-in-stub", name, wit)


def scan_rows(res6, db, k, wit):
    conn = sqlite3.connect(db)
    rows = conn.execute("SELECT arg_types, return_type, yield_type FROM monkeytype_call_traces").fetchall()
    conn.close()

    def walk(d):
        if isinstance(d, dict):
            if d.get("is_typed_dict") and d.get("qualname") == "DUMMY_NAME":
                et = d.get("elem_types", {})
                n = len(et.get("required_fields", {}).get("elem_types", {})) + len(et.get("optional_fields", {}).get("elem_types", {}))
                res6.count("stored_typeddict_nodes")
                if k == 0:
                    res6.violation("typeddict-in-store-with-limit-zero", "a stored row contains a TypedDict although the limit is 0", wit)
                elif n > k:
                    res6.violation("typeddict-over-limit-in-store", f"stored TypedDict with {n} keys, limit {k}", wit)
                elif n == 0:
                    res6.violation("empty-typeddict-in-store", "stored empty TypedDict", wit)
            for v in d.values():
                walk(v)
        elif isinstance(d, list):
            for v in d:
                walk(v)

    for row in rows:
        res6.count("stored_rows_scanned")
        for col in row:
            if col:
                walk(json.loads(col))


def work(p):
    res = core.Res()
    res6 = core.Res()
    d = core.scratch("c01")
    for spec in p["programs"]:
        rng = random.Random(spec["seed"])
        stratum = spec.get("stratum", "main")
        opts = {"nested_classes": True, "unique_names": stratum != "collide", "annotate": 0.3}
        if spec.get("pool") == "dicts":
            from vf.gen import values as gv

            fam = gv.dict_family_members(keys=("a", "b", "c", "d"), vals=("1", "'x'", "None"))
            big = ["{" + ", ".join(f"'{c}': {i}" for i, c in enumerate("abcdefghijkl"[:n])) + "}" for n in (2, 3, 4, 9, 10, 11)]
            opts["wide"] = True
            small = [e for e in gv.dict_family_members(keys=("a", "b", "c"), vals=("1", "'x'", "None")) if e.count(":") in (1, 2)]
            lods = ["[" + ", ".join(rng.sample(small, rng.choice([1, 2, 2]))) + "]" for _ in range(30)]
            opts["pool"] = rng.sample(fam, 25) + big + lods + ["1", "None"]
        if spec.get("literal"):
            m = gm.Mod(rng, spec["name"], opts)
            m.source = gm.HEADER + spec["literal"]["source"]
            for i, (q, flavor) in enumerate(spec["literal"]["funcs"]):
                m.funcs.append(gm.FuncSpec(i + 1, q, [], "module", flavor))
            res.count("pinned_witnesses")
            if spec["name"] == "vfm06_shapes":
                res6.count("pinned_shape_programs")
        else:
            m = gm.Mod(rng, spec["name"], opts).build(spec.get("nfuncs", 10))
        try:
            tmod, path = modrun.load(d, m)
        except Exception as e:
            res.violation("harness:module-does-not-import", repr(e), {"source": m.source})
            continue
        plan = spec["literal"]["plan"] if spec.get("literal") else modrun.plan_to_json(m, m.call_plan(rng, None, ncalls=(1, 4)))
        planfile = os.path.join(d, m.name + "_plan.json")
        json.dump(plan, open(planfile, "w"))
        script = os.path.join(d, m.name + "_driver.py")
        open(script, "w").write(DRIVER.format(mod=m.name, plan=planfile))
        for k in spec["ks"]:
            db = os.path.join(d, f"{m.name}_k{k}.sqlite3")
            os.environ["MT_DB_PATH"] = db
            record.RECORDS.clear()
            rc, out, err = cli(["-c", f"vf.mon.cfg:K{k}_DEFAULT", "run", script])
            records = list(record.RECORDS)
            wit0 = {"spec": dict(spec, ks=[k]), "k": k}
            res.count("traced_runs")
            res6.count("evaluations")
            if rc != 0:
                res.violation("run-fails", f"monkeytype run: rc={rc} {err[-400:]}", wit0)
                continue
            if not os.path.exists(db):
                res.violation("run-stored-nothing", "no database after run", wit0)
                continue
            scan_rows(res6, db, k, wit0)
            first6 = True
            for rw in spec["rewriters"]:
                for flag in spec["flags"]:
                    g, sflags = FLAGS[flag]
                    res.count("evaluations")
                    res.count("stub_generations")
                    wit = dict(wit0, rewriter=rw, flag=flag)
                    rc, text, err = cli(g + ["-c", f"vf.mon.cfg:K{k}_{rw}", "stub", m.name] + sflags)
                    if rc != 0:
                        res.violation(f"stub-command-fails:{rw}", f"k={k} {flag}: rc={rc} {err[-500:]}", wit)
                        continue
                    if "failed to decode" in err:
                        res.count("runs_with_undecodable_rows")
                    keys = judge_stub(res, text, tmod, m, records, k, rw, flag, wit)
                    res.seen("configurations", f"k{k}|{rw}|{flag}")
                    res.shape(json.dumps([k, rw, flag, stratum, len(text) // 400]))
                    if first6 or rw == "NoOpRewriter":
                        judge_c06(res6, text, db, k, wit)
                        first6 = False
                    for key, texts in keys.items():
                        res.violation(key, f"{m.name} k={k} {rw} {flag}: {texts[0][:300]}" + (f" (+{len(texts) - 1} more)" if len(texts) > 1 else ""),
                                      dict(wit, details=texts[:5], stub=text[:2500]))
                    if not keys:
                        res.sample({"module": m.name, "k": k, "rewriter": rw, "flag": flag, "calls": len(records)}, cap=1)
            # the store may have been written under a larger limit than the one in force at stub time
            for k2 in spec.get("cross_k", {}).get(str(k), []):
                # every way of choosing the rewriter: configuration (none / default chain) and the CLI switch that disables it
                for g, rw, ctx in (([], "NoOpRewriter", ""), ([], "DEFAULT", ""), (["--disable-type-rewriting"], "DEFAULT", ""), (["--disable-type-rewriting"], "NoOpRewriter", ""),
                                   ([], "NoOpRewriter", "CTX"), ([], "DEFAULT", "CTX")):
                    # CTX: a Config whose limit is a project setting available only inside cli_context (a larger fallback outside)
                    rc, text, err = cli(g + ["-c", f"vf.mon.cfg:K{ctx}{k2}_{rw}", "stub", m.name])
                    res6.count("cross_limit_stubs")
                    res6.seen("cross_limit_modes", f"{' '.join(g) or 'no-flag'}|{rw}|{ctx or 'plain'}")
                    if rc == 0:
                        judge_c06(res6, text, db, k2, dict(wit0, traced_with_limit=k, stub_limit=k2, cross_limit=True, rewriter=rw, global_flags=g),
                                  cross=f"traced at {k}, stub at {k2}, {' '.join(g) or 'no flag'}, {rw}")
            os.remove(db)
        modrun.unload(m, d)
    os.environ.pop("MT_DB_PATH", None)
    return {"C01": res.out(), "C06": res6.out()}


def program_specs(ck, n, prop="C01", full=True):
    specs = []
    for i in range(n):
        r = ck.rng("p", i)
        specs.append({"name": f"vfm01_{prop}_{ck.seed}_{i}", "seed": f"{prop}:{ck.seed}:{i}", "nfuncs": r.choice([6, 10, 12]),
                      "stratum": "collide" if r.random() < 0.1 else "main", "pool": "dicts" if r.random() < (0.6 if prop == "C06" else 0.3) else None,
                      "cross_k": {"10": [0, 2], "3": [0, 1]} if prop == "C06" else {}, "ks": KS, "rewriters": CFG.REWRITERS if full else ["NoOpRewriter", "DEFAULT"], "flags": list(FLAGS) if full else ["default"]})
    return specs


PINNED = [
    {"name": "vfm01_pinned_collision", "seed": "pinned", "stratum": "collide", "ks": [3], "rewriters": ["NoOpRewriter"], "flags": ["default"],
     "literal": {"source": "\ndef f(p0):\n    return 1\n\n\ndef g(p0):\n    return 2\n",
                 "funcs": [["f", "plain"], ["g", "plain"]],
                 "plan": [{"qual": "f", "access": "f", "args": ["{'a': 1}"], "kwargs": {}, "flavor": "plain", "kind": "module"},
                          {"qual": "g", "access": "g", "args": ["{'b': 's'}"], "kwargs": {}, "flavor": "plain", "kind": "module"}]}},
]


# a hot loop: thousands of identical calls, then one with another type.  The query limit counts distinct traces, so the rare call
# must still reach the stub.
PINNED.append(
    {"name": "vfm01_hot_loop", "seed": "hot", "stratum": "main", "ks": [0], "rewriters": ["NoOpRewriter"], "flags": ["default"],
     "literal": {"source": "\ndef hot(v):\n    return v\n", "funcs": [["hot", "plain"]],
                 "plan": [{"qual": "hot", "access": "hot", "args": ["1"], "kwargs": {}, "flavor": "plain", "kind": "module"}] * 2300
                 + [{"qual": "hot", "access": "hot", "args": ["'s'"], "kwargs": {}, "flavor": "plain", "kind": "module"}]}})


def _call(q, args, flavor="plain"):
    return {"qual": q, "access": q, "args": args, "kwargs": {}, "flavor": flavor, "kind": "module"}


# pinned witness of the listed finding text-annotation-replicated-without-its-imports: a quoted source annotation naming typing constructs
PINNED.append(
    {"name": "vfm01_text_annotation", "seed": "textann", "stratum": "main", "ks": [0], "rewriters": ["NoOpRewriter"], "flags": ["default"],
     "literal": {"source": "\ndef pair(p: 'Tuple[Optional[str], int]', q=1):\n    return q\n", "funcs": [["pair", "plain"]],
                 "plan": [_call("pair", ["(None, 1)"]), _call("pair", ["('s', 2)", "2"])]}})
PINNED[-1]["literal"]["text_annotated"] = ["pair(p)"]


# a module in which the only union sits inside an Optional (imports are merged per module: one plain Union elsewhere would provide the name)
PINNED.append(
    {"name": "vfm01_optional_union_only", "seed": "optunion", "stratum": "main", "ks": [0, 3], "rewriters": ["NoOpRewriter", "DEFAULT"], "flags": ["default"],
     "literal": {"source": "\ndef coerce(v, fallback=None):\n    return fallback if v is None else v\n\n\ndef lookup(table, default=None):\n    return default\n",
                 "funcs": [["coerce", "plain"], ["lookup", "plain"]],
                 "plan": [_call("coerce", ["1"]), _call("coerce", ["'s'"]), _call("coerce", ["None"]), _call("coerce", ["None", "2.5"]),
                          _call("lookup", ["{'k': A()}", "A()"]), _call("lookup", ["{'k': A()}", "1"]), _call("lookup", ["{'k': A()}"])]}})


# Deterministic shapes for the end-to-end part of C06 (run -> rows -> stub classes, every k, and stores written under a larger limit
# than the stub is generated with): every way a TypedDict can reach a row or a stub class that the random pools only sometimes produce.
C06_SHAPES_SOURCE = '''
def gen_rows(n0):
    yield {'ga': 1}
    yield {'gb': 2}
    yield {'gc': 3}
    yield {'ga': 1, 'gd': {'ge': 1, 'gf': 2, 'gg': 3}}


def nested(cfg0):
    return cfg0


def shared_a(opts):
    return 1


def shared_b(opts):
    return 2


def in_containers(c0):
    return c0


def merged_list(rows0):
    return [dict(r) for r in rows0]


def in_stdlib_containers(s0):
    return s0


def in_defaultdict(d0):
    return d0


def returns_big(n1):
    return {'r%d' % i: i for i in range(n1)}


def mixed_keys(m0):
    return m0


def optional_field(rows1):
    return rows1
'''
C06_SHAPES_PLAN = (
    [_call("gen_rows", ["1"], "gen")]
    + [_call("nested", [v]) for v in ("{'no': {'nx': 1, 'ny': 2, 'nz': 3}}", "{'no': {'nx': 1}, 'np': [{'na': 1, 'nb': 2, 'nc': 3, 'nd': 4}]}",
                                      "{'n1': {'n2': {'n3': {'n4': 1, 'n5': 2, 'n6': 3}}}}")]
    + [_call("shared_a", ["{'sa': 1, 'sb': 2}"]), _call("shared_b", ["{'sc': 1, 'sd': 2}"]), _call("shared_a", ["{'sa': 1, 'sb': 2}"]), _call("shared_b", ["{'sc': 1, 'se': 's'}"])]
    + [_call("in_containers", [v]) for v in ("[{'ca': 1, 'cb': 2, 'cc': 3}]", "({'ca': 1, 'cb': 2, 'cc': 3}, 1)", "{1: {'ca': 1, 'cb': 2, 'cc': 3}}",
                                             "defaultdict(dict, {'k': {'ca': 1, 'cb': 2, 'cc': 3}})", "[({'ca': 1, 'cb': 2, 'cc': 3},)]", "{'w': [{'ca': 1, 'cb': 2, 'cc': 3}]}")]
    + [_call("in_stdlib_containers", [v]) for v in ("OrderedDict(k={'oa': 1, 'ob': 2, 'oc': 3})", "deque([{'oa': 1, 'ob': 2, 'oc': 3}])", "OrderedDict(k=[{'oa': 1}])")]
    + [_call("in_defaultdict", [v]) for v in ("defaultdict(dict, {'k': {'da': 1, 'db': 2, 'dc': 3}})", "defaultdict(dict, {'j': {'da': 1, 'db': 2, 'dc': 3}})")]
    + [_call("merged_list", [v]) for v in ("[{'ma': 1}, {'mb': 2}]", "[{'mc': 3}]", "[{'ma': 1, 'md': 4}, {'me': 5}]", "[]")]
    + [_call("returns_big", [str(n)]) for n in (0, 1, 2, 3, 4, 10, 11)]
    + [_call("optional_field", ["[{'id': 1}, {'id': 2, 'extra': {'ea': 1, 'eb': 2, 'ec': 3}}]"])]
    + [_call("mixed_keys", [v]) for v in ("{'xa': 1, 2: 3}", "{1: 2}", "{}", "{'xa': 1}", "{SKey('xa'): 1}")]
)
C06_PINNED = [{"name": "vfm06_shapes", "seed": "c06shapes", "stratum": "main", "ks": KS, "rewriters": ["NoOpRewriter", "DEFAULT"], "flags": ["default", "norewrite"],
               "cross_k": {"10": [0, 1, 2, 3], "3": [0, 1, 2], "2": [0, 1]},
               "literal": {"source": C06_SHAPES_SOURCE, "funcs": [[q, "gen" if q == "gen_rows" else "plain"] for q in
                                                                  ("gen_rows", "nested", "shared_a", "shared_b", "in_containers", "in_stdlib_containers", "in_defaultdict", "merged_list", "returns_big", "mixed_keys", "optional_field")],
                           "plan": C06_SHAPES_PLAN}}]


def run(ck):
    quick = ck.tier == "quick"
    specs = PINNED + program_specs(ck, 32 if quick else 600)
    n = min(core.NPROC * (1 if quick else 4), len(specs))
    for r in core.pmap("vf.props.c01:work", [{"programs": specs[i::n]} for i in range(n)], timeout=3400):
        if r is None or "harness_error" in r or "mt_exception" in r:
            ck.merge(r)
        else:
            ck.merge(r["C01"])
    ck.need("membership_judgements", 200)
    ck.need("judged_at_union", 50)
    ck.need("judged_at_container", 50)
    ck.need("judged_at_typeddict", 20)
    ck.need("configurations", 100, "configurations (k x rewriter x flag) reached")
    return ck.finish(
        rule="generated target modules (functions, methods of every kind, generators, coroutines; consistent source annotations on some "
        "positions) driven with value-grammar call histories through the real CLI in-process: `monkeytype run` once per "
        "max_typed_dict_size in {0,1,2,3,10} into an SQLite store, then `stub` for each of 7 rewriter configurations x 4 flag sets; every "
        "value the driver recorded at a parameter / return / yield is judged a member of the annotation the stub text gives that position "
        "(evaluated with the stub's own names). distinct = (k, rewriter, flag, stratum, stub size class)",
        assumptions=["the driver's recording (inspect.signature.bind at the call boundary) is independent of the tracer",
                     "element types of Iterator/Generator argument values are unverifiable without consuming them (counted)",
                     "source annotations in the generated modules are consistent with the values passed"],
    )


def replay(ck, path):
    data = json.load(open(path))
    sp = []
    for c in data.get("cases", []):
        w = c.get("witness") or {}
        if "spec" in w:
            s = dict(w["spec"])
            if "rewriter" in w:
                s["rewriters"], s["flags"] = [w["rewriter"]], [w["flag"]]
            sp.append(s)
    r = work({"programs": sp})
    ck.merge(r["C01"])
    return ck.finish(rule="replay of " + path)
