"""C07 - shipped rewriters never narrow, never crash, fire only on their trigger.  DESIGN 6 C07."""
import random
import typing

from vf import core
from vf.gen import types as gt
from vf.gen import values as gv
from vf.oracle import rt as RT
from vf.oracle import triggers as TR
from vf.oracle.conform import member, Unverifiable
from vf.oracle.inhabit import inh

SINGLES = ["RemoveEmptyContainers", "RewriteConfigDict", "RewriteLargeUnion2", "RewriteLargeUnion5",
           "RewriteMostSpecificCommonBase", "RewriteGenerator", "NoOpRewriter"]


def make(name):
    import monkeytype.typing as mt

    if name == "RewriteLargeUnion2":
        return mt.RewriteLargeUnion(2)
    if name == "RewriteLargeUnion5":
        return mt.RewriteLargeUnion(5)
    if name == "DEFAULT_REWRITER":
        return mt.DEFAULT_REWRITER
    return getattr(mt, name)()


def _raw_large_union(t, n, depth=0):
    if depth > 8:
        return False
    args = getattr(t, "__args__", None) or ()
    if typing.get_origin(t) is typing.Union and len(args) > n:
        return True
    if RT._is_typeddict_meta(t):
        ann = getattr(t, "__annotations__", {})
        return any(_raw_large_union(a, n, depth + 1) for a in ann.values())
    return any(_raw_large_union(a, n, depth + 1) for a in args if a is not Ellipsis and a != ())


def trigger(name, T, term):
    if name == "RemoveEmptyContainers":
        return TR.remove_empty_containers(term)
    if name == "RewriteConfigDict":
        return TR.config_dict(term)
    if name == "RewriteLargeUnion2":
        return TR.large_union(term, 2) or _raw_large_union(T, 2)
    if name == "RewriteLargeUnion5":
        return TR.large_union(term, 5) or _raw_large_union(T, 5)
    if name == "RewriteMostSpecificCommonBase":
        return TR.common_base(term)
    if name == "RewriteGenerator":
        return TR.generator(term)
    return False


def judge_single(res, name, rw, T, term, vals, desc):
    """-> rewritten type or None."""
    res.count("rewrites")
    trig = trigger(name, T, term)
    res.count(f"{name}:trigger_{'present' if trig else 'absent'}")
    try:
        R = rw.rewrite(T)
    except Exception as e:
        res.violation(f"raises:{name}:{type(e).__name__}", f"{name}.rewrite({desc}) raised {e!r}", {"type": desc, "rewriter": name})
        return None
    rterm = RT.to_rt(R)
    if RT.has_unknown(rterm):
        res.count("unverifiable_result")
        res.violation(f"uninterpretable-result:{name}", f"{name}.rewrite({desc}) -> {R!r}", {"type": desc, "rewriter": name})
        return R
    if rterm != term:
        res.count(f"{name}:changed")
        if not trig:
            res.violation(f"fires-without-trigger:{name}", f"{name}.rewrite({desc}) -> {RT.show(rterm)} although its trigger is absent",
                          {"type": desc, "rewriter": name})
    for v in vals:
        res.count("membership_judgements")
        try:
            ok = member(v, rterm)
        except Unverifiable:
            res.count("unverifiable_member")
            continue
        if not ok:
            res.violation(f"narrows:{name}", f"{name}.rewrite({desc}) -> {RT.show(rterm)} no longer admits {v!r:.80}",
                          {"type": desc, "rewriter": name, "value": repr(v)[:200]})
            break
    return R


def judge_type(res, T, desc, witnesses, rws, pairs, rng):
    res.count("evaluations")
    term = RT.to_rt(T)
    if RT.has_unknown(term):
        res.count("skipped_unknown_input")
        return
    res.shape(RT.shape(term))
    vals = []
    for v in inh(term) + list(witnesses):
        try:
            if member(v, term):
                vals.append(v)
            else:
                res.count("oracle_inhabitant_rejected")
        except Unverifiable:
            pass
    if not vals:
        res.count("types_without_inhabitant")
    res.count("inhabitants", len(vals))
    for name in SINGLES:
        judge_single(res, name, rws[name], T, term, vals, desc)
    # default chain: stage by stage on the real intermediates, then the chain object itself
    import monkeytype.typing as mt

    cur, curterm, curvals, curdesc = T, term, vals, desc
    stages = [("RemoveEmptyContainers", rws["RemoveEmptyContainers"]), ("RewriteConfigDict", rws["RewriteConfigDict"]),
              ("RewriteLargeUnion5", rws["RewriteLargeUnion5"]), ("RewriteGenerator", rws["RewriteGenerator"])]
    ok = True
    for name, rw in stages:
        nxt = judge_single(res, name, rw, cur, curterm, curvals, curdesc) if cur is not T else None
        if cur is T:
            try:
                nxt = rw.rewrite(cur)
            except Exception:
                ok = False
                break
        if nxt is None:
            ok = False
            break
        cur = nxt
        curterm = RT.to_rt(cur)
        if RT.has_unknown(curterm):
            ok = False
            break
        curdesc = f"{name}({curdesc})"
        curvals = [v for v in inh(curterm) + vals if _mem(v, curterm)]
    try:
        D = mt.DEFAULT_REWRITER.rewrite(T)
        dterm = RT.to_rt(D)
        res.count("default_chain_rewrites")
        if ok and dterm != curterm:
            res.violation("chain-not-composition:DEFAULT_REWRITER", f"{desc}: chain gives {RT.show(dterm)}, stages give {RT.show(curterm)}", {"type": desc})
        if not RT.has_unknown(dterm):
            for v in vals:
                if not _mem(v, dterm):
                    res.violation("narrows:DEFAULT_REWRITER", f"DEFAULT_REWRITER.rewrite({desc}) -> {RT.show(dterm)} no longer admits {v!r:.80}",
                                  {"type": desc, "rewriter": "DEFAULT_REWRITER", "value": repr(v)[:200]})
                    break
    except Exception as e:
        res.violation(f"raises:DEFAULT_REWRITER:{type(e).__name__}", f"DEFAULT_REWRITER.rewrite({desc}) raised {e!r}", {"type": desc, "rewriter": "DEFAULT_REWRITER"})
    # ordered pairs through ChainedRewriter: second rewriter judged on the real intermediate; chain == composition
    for a, b in pairs:
        res.count("pair_rewrites")
        try:
            mid = rws[a].rewrite(T)
        except Exception:
            continue  # reported by the single-rewriter judgement above
        midterm = RT.to_rt(mid)
        if RT.has_unknown(midterm):
            continue
        midvals = [v for v in inh(midterm) + vals if _mem(v, midterm)]
        r2 = judge_single(res, b, rws[b], mid, midterm, midvals, f"{a}({desc})")
        try:
            r1 = mt.ChainedRewriter((rws[a], rws[b])).rewrite(T)
        except Exception as e:
            if r2 is not None:
                res.violation(f"raises:ChainedRewriter:{type(e).__name__}", f"Chained({a},{b}).rewrite({desc}) raised {e!r}", {"type": desc})
            continue
        if r2 is not None and RT.to_rt(r1) != RT.to_rt(r2):
            res.violation("chain-not-composition", f"Chained({a},{b}) on {desc}: {r1!r} vs {r2!r}", {"type": desc})
    res.sample({"type": desc, "rt": RT.show(term), "inhabitants": [repr(v)[:40] for v in vals[:4]]}, cap=2)


def _mem(v, term):
    try:
        return member(v, term)
    except Unverifiable:
        return True


def work(p):
    import monkeytype.typing as mt

    rng = random.Random(p["seed"])
    res = core.Res()
    rws = {n: make(n) for n in SINGLES}
    allpairs = [(a, b) for a in SINGLES for b in SINGLES if a != b]
    for i, expr in enumerate(p.get("exprs", ())):
        T = gt.ev(expr)
        pairs = rng.sample(allpairs, 3) if i % p.get("pair_every", 4) == 0 else []
        judge_type(res, T, expr, [], rws, pairs, rng)
    real = [n for n in SINGLES if n != "NoOpRewriter"]
    realpairs = [(a, b) for a in real for b in real if a != b]
    for expr in p.get("hood", ()):
        # around the triggers every ordered pair matters: what one rewriter produces can be the next one's trigger
        T = gt.ev(expr)
        small = typing.get_origin(T) is typing.Union and len(T.__args__) == 2  # below every union maximum: the declining paths
        judge_type(res, T, expr, [], rws, realpairs if p.get("all_pairs") or small else rng.sample(realpairs, 10), rng)
        res.count("trigger_neighbourhood_types_judged")
    for _ in range(p.get("random", 0)):
        expr = gt.gen_type(rng) if rng.random() < 0.5 else gt.gen_union(rng)
        judge_type(res, gt.ev(expr), expr, [], rws, rng.sample(allpairs, 3), rng)
    for exprs, k in p.get("inferred", ()):
        vals = [gv.ev(e) for e in exprs]
        try:
            T = mt.shrink_types([mt.get_type(v, k) for v in vals], k)
        except Exception:
            res.count("inference_failed")
            continue
        res.count("inferred_inputs")
        judge_type(res, T, f"inferred(k={k}) from {exprs}", vals, rws, rng.sample(allpairs, 2), rng)
    return res.out()


def run(ck):
    quick = ck.tier == "quick"
    exprs = list(gt.enumerate_upto(4 if quick else 5))
    hood = gt.neighbourhood_exprs(ck.rng("hood"), 150 if quick else 3000)
    ck.count("trigger_neighbourhood_types", len(hood))
    rs = ck.rng("inferred")
    inferred = []
    ms = [list(m) for m in gv.multisets(2)]
    for m in (rs.sample(ms, 1200) if quick else ms):
        inferred.append([m, rs.choice([0, 3, 10])])
    for i in range(4000 if quick else 40000):
        inferred.append([gv.gen_multiset(rs), rs.choice([0, 1, 3, 10])])
    nrandom = 30000 if quick else 200000
    n = core.NPROC * (2 if quick else 8)
    payloads = [
        {"exprs": exprs[i::n], "hood": hood[i::n], "all_pairs": not quick, "inferred": inferred[i::n], "random": nrandom // n, "seed": f"C07:{ck.seed}:{i}", "pair_every": 4}
        for i in range(n)
    ]
    for r in core.pmap("vf.props.c07:work", payloads, timeout=3400):
        ck.merge(r)
    if ck.tier == "thorough":
        from vf.props import infer

        infer.suite_as_workload(ck, "C07")
    for name in SINGLES[:-1]:
        ck.need(f"{name}:trigger_present", 100, "rewriter's trigger present in too few inputs")
        ck.need(f"{name}:trigger_absent", 100)
        ck.need(f"{name}:changed", 20, "rewriter never observed firing")
    ck.need("membership_judgements", 50000)
    ck.need("inferred_inputs", 1000)
    ck.need("trigger_neighbourhood_types", 3000)
    return ck.finish(
        rule="types: every grammar expression up to the node bound (quick: sizes 1-4 complete; thorough: sizes 1-5), "
        "unions built around each rewriter's trigger (tuples incl. Tuple[()], class families with None, dict unions, empty containers next to same / "
        "sub-kind containers) in every member order for sizes 2-3 and sampled for 4-7, also nested under every generic, "
        "seeded random types/unions beyond, and types inferred from value multisets; each x 7 shipped rewriters + the default chain "
        "stage by stage + sampled ordered pairs through ChainedRewriter. distinct = structure of the input type with classes abstracted",
        assumptions=["non-narrowing is decided value-wise on canonical inhabitants (vf/oracle/inhabit.py) and on the real witness values",
                     "C[Any] stands for the observed empty container (observational reading)",
                     "triggers are the statement's wording (vf/oracle/triggers.py)"],
    )


def replay(ck, path):
    import json

    data = json.load(open(path))
    res = core.Res()
    rws = {n: make(n) for n in SINGLES}
    for case in data.get("cases", []):
        w = case["witness"] or {}
        d = w.get("type", "")
        if d.startswith("inferred"):
            continue
        judge_type(res, gt.ev(d.split("(", 1)[1].rsplit(")", 1)[0]) if d[:2] == "Re" and d.endswith(")") and "(" in d and d.split("(")[0] in SINGLES else gt.ev(d),
                   d, [], rws, [], random.Random(0))
    ck.merge(res.out())
    return ck.finish(rule="replay of " + path)
