"""C13 - existing source annotations are kept, omitted or overridden exactly as requested.  DESIGN 6 C13."""
import ast
import inspect
import json
import os
import random
import typing

from vf import core
from vf.gen import modules as gm
from vf.oracle import rt as RT
from vf.oracle.stubeval import StubEval
from vf.props import modrun

EMPTY = inspect.Parameter.empty


def resolve_src(ann, tmod):
    """Source annotation object -> (rt | None, name-for-comparison | None)."""
    if isinstance(ann, str):
        try:
            return RT.to_rt(eval(ann, tmod.__dict__)), None  # noqa: S307
        except Exception:
            return None, ann
    if type(ann).__name__ == "NewType":
        return None, ann.__name__
    t = RT.to_rt(ann)
    if RT.has_unknown(t):
        return None, getattr(ann, "__name__", repr(ann))
    return t, None


class _Unquote(ast.NodeTransformer):
    """Forward references written as strings inside an annotation become the expressions they spell."""

    def visit_Constant(self, node):
        if isinstance(node.value, str):
            try:
                return self.visit(ast.parse(node.value, mode="eval").body)
            except SyntaxError:
                return node
        return node


def read_in_source_namespace(node, tmod):
    expr = ast.Expression(_Unquote().visit(ast.parse(ast.unparse(node), mode="eval").body))
    ast.fix_missing_locations(expr)
    return RT.to_rt(eval(compile(expr, "<annotation>", "eval"), dict(vars(tmod))))  # noqa: S307


def is_optional_rt(t):
    return t == RT.NONE or (t[0] == "union" and RT.NONE in t[1])


CLI_FLAGS = {"REPLICATE": [], "OMIT": ["--omit-existing-annotations"], "IGNORE": ["--ignore-existing-annotations"]}


def judge_module(res, tmod, m, traces, k, strategy, sname, via_cli=None, rewriter="NoOpRewriter"):
    from monkeytype.stubs import build_module_stubs_from_traces
    import monkeytype.typing as mt

    rw = mt.DEFAULT_REWRITER if rewriter == "DEFAULT" else getattr(mt, rewriter)()

    keys = {}

    def bad(key, txt):
        keys.setdefault(f"{sname}:{key}", []).append(txt)

    if via_cli:
        from vf.props.c01 import cli

        os.environ["MT_DB_PATH"] = via_cli
        rc, text, err = cli(["-c", f"vf.mon.cfg:K{k}_{rewriter}", "stub", m.name] + CLI_FLAGS[sname])
        res.count("cli_stub_runs")
        if rc != 0:
            bad("stub-command-fails", f"rc={rc} {err[-300:]}")
            return keys, text
        # the store de-duplicates and the CLI decodes: judge against what it can have seen
        text = text.rstrip("\n")
    else:
        try:
            stubs = build_module_stubs_from_traces(traces, k, existing_annotation_strategy=strategy, rewriter=rw)
            text = stubs[m.name].render()
        except Exception as e:
            bad(f"stub-build-raises:{type(e).__name__}", repr(e)[:300])
            return keys, ""
    se = StubEval(text, tmod)
    if se.syntax_error:
        bad("stub-does-not-parse", se.syntax_error)
        return keys, text
    collided = se.collided_closure()
    if collided:
        orig_bad = bad

        def bad(key, txt):  # noqa: F811 - annotations that mention a collided generated class are explained by the collision
            if any(c in txt for c in collided):
                keys.setdefault("typeddict-class-name-collision", []).append(txt)
            else:
                orig_bad(key, txt)
    by_func = {}
    if via_cli:
        # the store returns each distinct row once: two calls with equal types are ONE trace to the stub command (this matters where
        # merging treats "all traces equal" differently from "several traces", e.g. a yield union holding a TypedDict)
        seen_rows, distinct = set(), []
        for t in traces:
            from monkeytype.encoding import CallTraceRow

            r_ = CallTraceRow.from_trace(t)  # distinctness of rows is textual (union member order included), so use the row text itself
            rowkey = (r_.module, r_.qualname, r_.arg_types, r_.return_type, r_.yield_type)
            if rowkey not in seen_rows:
                seen_rows.add(rowkey)
                distinct.append(t)
        res.count("cli_duplicate_traces_collapsed", len(traces) - len(distinct))
        traces = distinct
    for t in traces:
        by_func.setdefault(inspect.unwrap(t.func), []).append(t)  # a functools.wraps wrapper is traced under the wrapped function's name
    specs = {f.qual: f for f in m.funcs}
    for func, ts in by_func.items():
        q = func.__qualname__
        f = specs.get(q)
        info = se.funcs.get(q)
        if f is None or info is None:
            bad("function-missing", q)
            continue
        sig = inspect.signature(func)
        arg_types = {}
        for t in ts:
            for n, ty in t.arg_types.items():
                arg_types.setdefault(n, []).append(ty)
        rets = [t.return_type for t in ts if t.return_type is not None]
        ylds = [t.yield_type for t in ts if t.yield_type is not None]
        stub_params = {p[0]: p for p in info.params()}
        receiver = next(iter(sig.parameters), None) if f.kind in ("instance", "class", "property") else None
        for name, p in sig.parameters.items():
            if name == receiver:
                continue
            sp = stub_params.get(name)
            if sp is None:
                continue  # C12's business
            node = sp[2]
            annotated = p.annotation is not EMPTY
            traced = name in arg_types
            pk = {inspect.Parameter.VAR_POSITIONAL: "varargs", inspect.Parameter.VAR_KEYWORD: "varkw"}.get(p.kind, "named")
            res.seen("cells", f"{sname}|{'annotated' if annotated else 'plain'}|{'traced' if traced else 'untraced'}|{pk}")
            res.count("position_cells")
            where = f"{q}({name})"
            want_src = (sname == "REPLICATE" and annotated)
            want_none = (sname == "OMIT" and annotated) or (not annotated and not traced)
            want_traced = traced and ((not annotated) or sname == "IGNORE")
            if sname == "IGNORE" and annotated and not traced:
                res.count("unjudged_ignore_untraced_annotated")
                continue
            if want_none:
                if node is not None:
                    bad("annotation-invented" if not annotated else "annotated-position-not-omitted", f"{where}: stub has {ast.unparse(node)}")
                continue
            if node is None:
                bad("source-annotation-dropped" if want_src else "traced-type-missing", f"{where}: no annotation in stub")
                continue
            got = se.ann_rt(node, where)
            if want_src:
                exp, expname = resolve_src(p.annotation, tmod)
                if exp is None:
                    txt = ast.unparse(node).strip("'\"")
                    ok = txt == expname or (p.default is None and txt in (f"Optional[{expname}]", f"Optional['{expname}']"))
                    res.count("compared_by_name")
                    if not ok:
                        bad("source-annotation-changed", f"{where}: source {expname}, stub {txt}")
                    continue
                if p.default is None and not is_optional_rt(exp):
                    exp = RT.union([exp, RT.NONE])
                    res.count("optional_wraps_expected")
                if got is None and isinstance(p.annotation, str):
                    # a textual source annotation is copied as text; whether the stub imports the names it uses is C11's / C01's
                    # subject (listed finding there) - here it is read the way the source reads it
                    try:
                        got = read_in_source_namespace(node, tmod)
                        res.count("textual_annotations_read_in_the_source_namespace")
                    except Exception:
                        got = None
                if got is None or got != exp:
                    bad("source-annotation-changed", f"{where}: source denotes {RT.show(exp)}, stub says {ast.unparse(node)}")
            elif want_traced:
                try:
                    T = RT.to_rt(rw.rewrite(mt.shrink_types(arg_types[name], k)))
                except Exception as e:
                    res.count("unverifiable_shrink_failed")
                    continue
                alts = [T]
                if p.default is None:
                    alts.append(RT.union([T, RT.NONE]))
                if got is None or got not in alts:
                    bad("traced-type-not-applied" if annotated else "traced-type-wrong", f"{where}: traced {RT.show(T)}, stub says {ast.unparse(node)}")
        # return position
        ann = sig.return_annotation
        annotated = ann is not inspect.Signature.empty
        traced = bool(rets or ylds)
        node = info.node.returns
        where = f"{q}(return)"
        res.seen("cells", f"{sname}|{'annotated' if annotated else 'plain'}|{'traced' if traced else 'untraced'}|return")
        res.count("position_cells")
        exitkind = ("yield+return" if ylds and any(r is not mt.NoneType for r in rets) else "yield" + ("+None" if rets else "") if ylds else
                    ("return" if rets else "exception-or-uncalled"))
        res.seen("return_kinds", exitkind)
        if sname == "IGNORE" and annotated and not traced:
            continue
        if (sname == "OMIT" and annotated) or (not annotated and not traced):
            if node is not None:
                bad("return-annotation-invented" if not annotated else "annotated-return-not-omitted", f"{where}: stub has {ast.unparse(node)} ({exitkind})")
            continue
        if node is None:
            bad("return-annotation-missing", f"{where}: none in stub ({exitkind})")
            continue
        got = se.ann_rt(node, where)
        if sname == "REPLICATE" and annotated:
            exp, expname = resolve_src(ann, tmod)
            if exp is None:
                if ast.unparse(node).strip("'\"") != expname:
                    bad("source-return-annotation-changed", f"{where}: source {expname}, stub {ast.unparse(node)}")
            else:
                if got is None and isinstance(ann, str):
                    try:
                        got = read_in_source_namespace(node, tmod)  # see the parameter case
                    except Exception:
                        got = None
                if got != exp:
                    bad("source-return-annotation-changed", f"{where}: source {RT.show(exp)}, stub {ast.unparse(node)}")
            continue
        try:
            R = RT.to_rt(rw.rewrite(mt.shrink_types(rets, k))) if rets else None
            Y = RT.to_rt(rw.rewrite(mt.shrink_types(ylds, k))) if ylds else None
        except Exception:
            res.count("unverifiable_shrink_failed")
            continue
        if Y is not None and (R is None or R == RT.NONE):
            exp = ("iterator", Y)
        elif Y is not None:
            exp = ("generator", Y, RT.NONE, R)
        else:
            exp = R
        if got != exp:
            bad("generator-return-wrong" if Y is not None else "traced-return-wrong", f"{where}: expected {RT.show(exp)} ({exitkind}), stub says {ast.unparse(node)}")
    return keys, text


def work(p):
    from monkeytype.stubs import ExistingAnnotationStrategy as S
    from monkeytype.tracing import CallTrace
    import monkeytype.typing as mt

    res = core.Res()
    d = core.scratch("c13")
    todo = []
    for spec in p["modules"]:
        todo.append(spec)
        if spec.get("history"):
            # the module is edited (other signatures and annotations behind the same names), reloaded and stubbed again in this process
            todo.append(dict(spec, seed=spec["seed"] + ":edited", second=True))
    prev_quals = set()
    for spec in todo:
        rng = random.Random(spec["seed"])
        m = gm.Mod(rng, spec["name"], {"nested_classes": False, "annotate": 0.5}).build(spec.get("nfuncs", 10))
        res.count("evaluations")
        if spec.get("second"):
            res.count("edited_and_reloaded_modules")
            res.count("names_kept_across_the_edit", len(prev_quals & {f.qual for f in m.funcs}))
        prev_quals = {f.qual for f in m.funcs}
        try:
            tmod, path = modrun.load(d, m)
        except Exception as e:
            res.violation("harness:module-does-not-import", repr(e), {"source": m.source})
            continue
        k = spec["k"]
        if spec.get("rewriter") == "DEFAULT":
            res.count("default_rewriter_modules")
        allq = [f.qual for f in m.funcs]
        subset = set(rng.sample(allq, rng.randint(max(1, len(allq) // 2), len(allq))))
        if spec.get("real", True):
            traces = modrun.trace_plan(tmod, path, m, m.call_plan(rng, subset, ncalls=(1, 4)), k)
            res.count("real_traced_modules")
        else:
            traces = []
            pool = [int, str, mt.NoneType, typing.List[int], tmod.Own, typing.Optional[str]]
            for f in m.funcs:
                if f.qual not in subset:
                    continue
                raw, _ = modrun.live_function(tmod, f)
                for _ in range(rng.choice([1, 2])):
                    at = {pp.name: rng.choice(pool) for pp in f.named() if rng.random() < 0.6}
                    yt = rng.choice(pool[:3]) if f.flavor == "gen" else None
                    rt_ = rng.choice([None, int, mt.NoneType, tmod.Own])
                    traces.append(CallTrace(raw, at, rt_, yt))
            res.count("direct_trace_modules")
        if not traces:
            continue
        res.shape(json.dumps([k, sorted({(f.kind, f.flavor, sum(1 for pp in f.params if pp.ann), f.ret_ann is not None) for f in m.funcs})]))
        db = None
        if spec.get("cli"):
            from monkeytype.db.sqlite import SQLiteStore

            db = os.path.join(d, m.name + ".sqlite3")
            st = SQLiteStore.make_store(db)
            st.add(traces)
            st.conn.close()
            if rng.random() < 0.6:
                # the traces come from runs on different days: the store returns them by day, so the rows of one function are not adjacent
                import sqlite3

                conn = sqlite3.connect(db)
                ids = [r[0] for r in conn.execute("SELECT rowid FROM monkeytype_call_traces")]
                with conn:
                    for rid in ids:
                        conn.execute("UPDATE monkeytype_call_traces SET created_at = ? WHERE rowid = ?", (f"2024-0{rng.randint(1, 9)}-1{rng.randint(0, 9)} 10:00:00.000", rid))
                conn.close()
                res.count("cli_stores_with_rows_from_several_days")
            if rng.random() < 0.5:
                # the store also holds rows that no longer decode (a function and a class that are gone): they are skipped (C10) and
                # must not change how the decodable rows are treated
                import sqlite3

                conn = sqlite3.connect(db)
                with conn:
                    conn.execute("INSERT INTO monkeytype_call_traces VALUES (datetime('now'), ?, 'gone_function', '{}', NULL, NULL)", (m.name,))
                    conn.execute("INSERT INTO monkeytype_call_traces VALUES (datetime('now'), ?, ?, ?, NULL, NULL)",
                                 (m.name, traces[0].func.__qualname__, '{"zz": {"module": "' + m.name + '", "qualname": "GoneClass"}}'))
                conn.close()
                res.count("cli_stores_with_undecodable_rows")
        for sname, strat in (("REPLICATE", S.REPLICATE), ("OMIT", S.OMIT), ("IGNORE", S.IGNORE)):
            keys, text = judge_module(res, tmod, m, traces, k, strat, sname, via_cli=db, rewriter=spec.get("rewriter", "NoOpRewriter"))
            for key, texts in keys.items():
                res.violation(key, f"{m.name}: {texts[0][:300]}" + (f" (+{len(texts) - 1} more)" if len(texts) > 1 else ""),
                              {"spec": spec, "strategy": sname, "details": texts[:5], "stub": text[:2000]})
        res.sample({"module": m.name, "k": k, "traces": len(traces)}, cap=1)
        modrun.unload(m, d)
    return res.out()


def pinned(p):
    """Pinned witness of the listed finding typeddict-class-name-collision (runs first in both tiers)."""
    from monkeytype.stubs import ExistingAnnotationStrategy as S
    from monkeytype.tracing import CallTrace
    import monkeytype.typing as mt

    res = core.Res()
    d = core.scratch("c13p")
    m = gm.Mod(random.Random(0), "vfm13_pinned")
    m.source = gm.HEADER + "\ndef g(a):\n    yield a\n"
    f = gm.FuncSpec(1, "g", [], "module", "gen")
    f.params = [gm.Param("a", "normal")]
    m.funcs = [f]
    tmod, path = modrun.load(d, m)
    td1 = mt.make_typed_dict(required_fields={"x": int})
    td2 = mt.make_typed_dict(required_fields={"y": str})
    traces = [CallTrace(tmod.g, {"a": int}, None, typing.Union[typing.DefaultDict[str, td1], td2])]
    keys, text = judge_module(res, tmod, m, traces, 3, S.REPLICATE, "REPLICATE")
    res.count("pinned_witnesses")
    res.count("evaluations")
    for key, texts in keys.items():
        res.violation(key, f"pinned: {texts[0][:300]}", {"pinned": "yield-union-collision", "stub": text})
    modrun.unload(m, d)
    return res.out()


def run(ck):
    quick = ck.tier == "quick"
    for r in core.pmap("vf.props.c13:pinned", [{}]):
        ck.merge(r)
    n = 3600 if quick else 20000
    specs = [{"name": f"vfm13_{ck.seed}_{i}", "seed": f"C13:{ck.seed}:{i}", "nfuncs": ck.rng("n", i).choice([6, 10, 14]), "k": [0, 0, 3][i % 3],
              "real": i % 5 != 0, "cli": i % 4 == 1, "rewriter": "DEFAULT" if i % 3 == 1 else "NoOpRewriter", "history": i % 6 == 2} for i in range(n)]
    kk = core.NPROC * (2 if quick else 8)
    for r in core.pmap("vf.props.c13:work", [{"modules": specs[i::kk]} for i in range(kk)], timeout=3400):
        ck.merge(r)
    ck.need("position_cells", 8000)
    ck.need("cli_stub_runs", 100, "CLI flag stratum did not run")
    ck.need("cli_stores_with_undecodable_rows", 30)
    ck.need("cli_stores_with_rows_from_several_days", 30)
    ck.need("cells", 30, "cells of strategy x annotated? x traced? x parameter kind unseen")
    ck.need("return_kinds", 4)
    ck.need("optional_wraps_expected", 30)
    ck.need("edited_and_reloaded_modules", 100)
    ck.need("names_kept_across_the_edit", 200)
    ck.need("default_rewriter_modules", 200)
    ck.need("compared_by_name", 30)
    return ck.finish(
        rule="generated signatures with source annotations on random subsets of positions (class, generic, Optional, string, NewType; None "
        "defaults), random subsets of functions traced for real or through constructed CallTraces with random subsets of arguments; for each of "
        "REPLICATE / OMIT / IGNORE every parameter and return position of the rendered stub is compared with the expectation computed from "
        "inspect.signature and the traces. distinct = (k, set of (kind, flavour, annotated positions))",
        assumptions=["the traced type of a position is shrink_types over the logged traces (judged by C04/C05/C02), rewriting disabled",
                     "for an unannotated traced parameter whose default is None both T and Optional[T] are accepted",
                     "an annotated but untraced position under IGNORE is not judged (the statement does not say)"],
    )


def replay(ck, path):
    data = json.load(open(path))
    sp = [c["witness"]["spec"] for c in data.get("cases", []) if c.get("witness") and "spec" in c["witness"]]
    ck.merge(work({"modules": sp}))
    return ck.finish(rule="replay of " + path)
