"""C16 - --pep_563 confines only annotation-only imports and keeps the module importable.  DESIGN 6 C16."""
import itertools
import json

from vf import core
from vf.props import applyrun
from vf.props.c15 import specs


def run(ck):
    quick = ck.tier == "quick"
    configs = [[ow, k, True] for ow, k in itertools.product([False, True], [0, 3])]
    sp = specs(ck, 42 if quick else 2000, "C16", configs)
    n = min(core.NPROC, len(sp))
    for r in core.pmap("vf.props.applyrun:work", [{"sources": sp[i::n], "prop": "C16"} for i in range(n)], timeout=3400):
        ck.merge(r)
    ck.need("confine_on", 120)
    ck.need("results_executed", 120)
    ck.need("cli_applies", 5)
    for f in ("imports:plain-import", "imports:from-import", "imports:aliased-from-import", "imports:aliased-module", "imports:function-local-import", "imports:function-local-from-import", "imports:relative-import-in-package", "type-checking-bound-in-try",
              "imports:mixed", "existing-type-checking-block", "future-import", "docstring"):
        ck.counters["feature:" + f] = 1 if f in ck.sets.get("source_features", ()) else 0
        ck.need("feature:" + f, 1, "source feature never generated")
    return ck.finish(
        rule="the C15 sources (imports of the helper modules at top, after docstrings and __future__ imports, inside functions, inside existing "
        "TYPE_CHECKING blocks, `import a.b`, `from a import b as c`, star imports) traced for real; stubs importing new user modules, typing "
        "names, names the source already imports and mypy_extensions.TypedDict (k=3) applied with confinement on (library call and "
        "`apply --pep_563`): first statement after the docstring is the __future__ import, every newly introduced non-typing import is under "
        "`if TYPE_CHECKING:`, every source import is still at its place, TypedDict stays a run-time import, and the result imports and "
        "re-runs the workload with equal results in a fresh interpreter. distinct = (import style, features, configuration)",
        assumptions=["typing names are not judged either way (the code keeps them at run time on purpose)",
                     "an import the source already has is not annotation-only even when apply duplicates it"],
    )


def replay(ck, path):
    data = json.load(open(path))
    sp = []
    for c in data.get("cases", []):
        w = c.get("witness") or {}
        if "spec" in w:
            s = dict(w["spec"])
            if "config" in w:
                s["configs"] = [w["config"]]
            sp.append(s)
    ck.merge(applyrun.work({"sources": sp, "prop": "C16"}))
    return ck.finish(rule="replay of " + path)
