"""pytest plugin: post-condition shims on the real functions while the repository's own test-suite runs
as a workload (DESIGN 5.3).  Test outcomes are ignored; only the journal counts.

    pytest -p vf.pytest_plugin   with VF_JOURNAL=<path>

The shims record and return (never raise).  Inputs the oracles cannot model are counted as skipped."""
import collections
import json
import os

from vf.oracle import rt as RT
from vf.oracle.conform import Unverifiable, member
from vf.oracle.inhabit import inh

J = {"counters": collections.Counter(), "violations": []}
_IN = [False]


def _viol(prop, key, text):
    J["counters"][f"{prop}:violations"] += 1
    if len(J["violations"]) < 200:
        J["violations"].append({"prop": prop, "key": key, "summary": text[:600]})


def _guard(fn):
    """Run an oracle without letting it disturb (or recurse into) the code under test."""

    def run(*a):
        if _IN[0]:
            return
        _IN[0] = True
        try:
            fn(*a)
        except Exception as e:  # noqa - an oracle failure is a skipped observation, never an effect on the test
            J["counters"]["oracle_errors:" + type(e).__name__] += 1
        finally:
            _IN[0] = False

    return run


def _td_limit(prop_site, term, k):
    if not isinstance(k, int):
        return
    for node in RT.td_nodes(term):
        n = len(node[1]) + len(node[2])
        J["counters"]["C06:td_nodes"] += 1
        if k == 0 or n > k or n == 0:
            _viol("C06", "typeddict-limit", f"{prop_site}: TypedDict with {n} keys under limit {k}: {RT.show(term)}")


@_guard
def _after_get_type(obj, k, result):
    J["counters"]["C04:get_type_calls"] += 1
    term = RT.to_rt(result)
    if RT.has_unknown(term):
        J["counters"]["skipped_unknown_result"] += 1
        return
    try:
        ok = member(obj, term)
    except Unverifiable:
        J["counters"]["skipped_unverifiable"] += 1
        return
    if not ok:
        _viol("C04", "value-not-admitted-by-get_type", f"get_type({obj!r:.80}, {k}) -> {RT.show(term)}")
    _td_limit("get_type", term, k)


@_guard
def _after_shrink(types, k, result, orig):
    J["counters"]["C04:shrink_types_calls"] += 1
    term = RT.to_rt(result)
    if RT.has_unknown(term) or any(RT.has_unknown(RT.to_rt(t)) for t in types):
        J["counters"]["skipped_unknown_result"] += 1
        return
    for t in types:
        it = RT.to_rt(t)
        for v in inh(it):
            try:
                if member(v, it) and not member(v, term):
                    _viol("C04", "merged-type-narrower-than-input", f"shrink_types({types!r:.200}, {k}) -> {RT.show(term)} rejects {v!r:.60}")
                    return
            except Unverifiable:
                pass
    if len(types) > 1:
        again = RT.to_rt(orig(list(reversed(types)), k))
        if again != term:
            _viol("C04", "order-dependent-merge", f"shrink_types of {types!r:.200} reversed gives {RT.show(again)} not {RT.show(term)}")
    _td_limit("shrink_types", term, k)


@_guard
def _after_to_json(typ, js, decode):
    J["counters"]["C08:type_to_json_calls"] += 1
    term = RT.to_rt(typ)
    if RT.has_unknown(term) or any(t[0] == "tuplevar" for t in RT.walk(term)):
        J["counters"]["skipped_unknown_result"] += 1
        return
    try:
        back = RT.to_rt(decode(js))
    except Exception as e:
        # classes local to a test function are not importable: outside the statement's domain
        J["counters"]["C08:undecodable:" + type(e).__name__] += 1
        return
    if back != term:
        _viol("C08", "roundtrip-differs", f"{RT.show(term)} decoded as {RT.show(back)}")


@_guard
def _after_rewrite(name, T, R):
    J["counters"]["C07:rewrites"] += 1
    a, b = RT.to_rt(T), RT.to_rt(R)
    if RT.has_unknown(a) or RT.has_unknown(b):
        J["counters"]["skipped_unknown_result"] += 1
        return
    for v in inh(a):
        try:
            if member(v, a) and not member(v, b):
                _viol("C07", f"narrows:{name}", f"{name}.rewrite({RT.show(a)}) -> {RT.show(b)} rejects {v!r:.60}")
                return
        except Unverifiable:
            pass


def install():
    import monkeytype.encoding as enc
    import monkeytype.stubs as stubs
    import monkeytype.tracing as tracing
    import monkeytype.typing as mt

    og, os_, oj = mt.get_type, mt.shrink_types, enc.type_to_json

    def get_type(obj, max_typed_dict_size):
        r = og(obj, max_typed_dict_size)
        _after_get_type(obj, max_typed_dict_size, r)
        return r

    def shrink_types(types, max_typed_dict_size):
        types = tuple(types)
        r = os_(types, max_typed_dict_size)
        _after_shrink(types, max_typed_dict_size, r, os_)
        return r

    def type_to_json(typ):
        js = oj(typ)
        _after_to_json(typ, js, enc.type_from_json)
        return js

    mt.get_type = tracing.get_type = get_type
    mt.shrink_types = stubs.shrink_types = shrink_types
    enc.type_to_json = type_to_json
    for name in ("RemoveEmptyContainers", "RewriteConfigDict", "RewriteLargeUnion", "RewriteGenerator", "RewriteMostSpecificCommonBase"):
        cls = getattr(mt, name)
        orig = cls.rewrite

        def rewrite(self, typ, _orig=orig, _name=name):
            top = not getattr(self, "_vf_depth", 0)
            self._vf_depth = getattr(self, "_vf_depth", 0) + 1
            try:
                r = _orig(self, typ)
            finally:
                self._vf_depth -= 1
            if top:
                _after_rewrite(_name, typ, r)
            return r

        cls.rewrite = rewrite


install()


def pytest_sessionfinish(session, exitstatus):
    path = os.environ.get("VF_JOURNAL")
    if path:
        with open(path, "w") as f:
            json.dump({"counters": dict(J["counters"]), "violations": J["violations"]}, f)
