"""Runner core: verdict discipline, evidence, known findings, parallel workers, scratch space.

Exit codes (DESIGN 1.2): 0 held / only known findings, 1 violation, 2 inconclusive.
"""
import collections
import hashlib
import json
import os
import random
import re
import shutil
import subprocess
import sys
import tempfile
import time

VERIF = os.path.dirname(os.path.dirname(os.path.abspath(__file__)))
REPO = os.path.abspath(os.environ.get("VF_REPO", "/repo"))
PY = os.environ.get("VF_PYTHON", "/venv/bin/python")
NPROC = int(os.environ.get("VF_NPROC", "0")) or min(16, os.cpu_count() or 4)


def child_env(extra_path=(), hashseed="0", **kw):
    env = dict(os.environ)
    parts = [REPO, VERIF] + list(extra_path)
    env["PYTHONPATH"] = os.pathsep.join(parts)
    env["PYTHONHASHSEED"] = str(hashseed)
    env["PYTHONDONTWRITEBYTECODE"] = "1"
    env["VF_REPO"] = REPO
    env.pop("MONKEYTYPE_TRACE_MODULES", None)
    env.pop("MT_DB_PATH", None)
    for k, v in kw.items():
        if v is None:
            env.pop(k, None)
        else:
            env[k] = str(v)
    return env


def assert_repo():
    import monkeytype

    f = os.path.realpath(monkeytype.__file__)
    if not f.startswith(os.path.realpath(REPO) + os.sep):
        raise SystemExit(f"monkeytype imported from {f}, expected under {REPO}")


# --------------------------------------------------------------------------------------------
# scratch

_SCRATCH = []


def scratch(prefix):
    base = os.environ.get("TMPDIR") or tempfile.gettempdir()
    d = tempfile.mkdtemp(prefix=f"vf_{prefix}_", dir=base)
    _SCRATCH.append(d)
    return d


def cleanup():
    while _SCRATCH:
        shutil.rmtree(_SCRATCH.pop(), ignore_errors=True)


# --------------------------------------------------------------------------------------------
# known findings

FINDINGS_FILE = os.path.join(VERIF, "KNOWN_FINDINGS.txt")
_LINE = re.compile(r"^(open|fixed):\s+property=(C\d+)\s+(.*)$")


def load_findings(prop):
    """-> {mechanism key: description} for `open:` lines of this property."""
    out = {}
    if not os.path.exists(FINDINGS_FILE):
        return out
    for line in open(FINDINGS_FILE):
        m = _LINE.match(line.strip())
        if not m or m.group(1) != "open" or m.group(2) != prop:
            continue
        rest = m.group(3)
        mm = re.match(r"mechanism=(\S+)\s*(.*)$", rest)
        if mm:
            out[mm.group(1)] = mm.group(2)
    return out


# --------------------------------------------------------------------------------------------
# check object


def _jsonable(o, depth=0):
    if depth > 12:
        return repr(o)[:200]
    if isinstance(o, (str, int, float, bool)) or o is None:
        return o
    if isinstance(o, dict):
        return {str(k): _jsonable(v, depth + 1) for k, v in o.items()}
    if isinstance(o, (list, tuple, set, frozenset)):
        return [_jsonable(v, depth + 1) for v in o]
    return repr(o)[:400]


class Check:
    def __init__(self, prop, tier, seed):
        self.prop = prop
        self.tier = tier
        self.seed = seed
        self.t0 = time.time()
        self.counters = collections.Counter()
        self.shapes = set()
        self.samples = []
        self.violations = []  # dicts: key, summary, witness
        self.needs = []  # (counter, minimum, why)
        self.notes = []
        self.harness_errors = []
        self.sets = collections.defaultdict(set)
        self.max_samples = 8

    def rng(self, *parts):
        return random.Random(f"{self.prop}:{self.seed}:" + ":".join(map(str, parts)))

    def count(self, name, n=1):
        self.counters[name] += n

    def shape(self, key):
        if not isinstance(key, str):
            key = json.dumps(_jsonable(key), sort_keys=True)
        self.shapes.add(hashlib.sha1(key.encode()).hexdigest()[:16])

    def sample(self, obj):
        if len(self.samples) < self.max_samples:
            self.samples.append(_jsonable(obj))

    def seen(self, setname, item):
        self.sets[setname].add(item if isinstance(item, str) else json.dumps(_jsonable(item), sort_keys=True))

    def violation(self, key, summary, witness=None):
        self.violations.append({"key": key, "summary": summary, "witness": _jsonable(witness)})

    def need(self, counter, minimum, why=""):
        self.needs.append((counter, minimum, why))

    def note(self, text):
        self.notes.append(text)

    def merge(self, r):
        """Merge a worker result dict."""
        if r is None:
            return
        if "harness_error" in r:
            self.harness_errors.append(r["harness_error"])
            return
        if "mt_exception" in r:
            e = r["mt_exception"]
            self.violation(f"exception:{e['type']}@{e['where']}", e["text"][-1500:], r.get("payload"))
            return
        self.counters.update(r.get("counters", {}))
        for s in r.get("shapes", ()):
            self.shapes.add(s)
        for s in r.get("samples", ()):
            self.sample(s)
        for v in r.get("violations", ()):
            self.violations.append(v)
        for k, items in r.get("sets", {}).items():
            self.sets[k].update(items)

    # ----------------------------------------------------------------------------------------
    def finish(self, level="exploration", rule="", assumptions=(), extra=None, exhaustive=None):
        known = load_findings(self.prop)
        by_key = collections.OrderedDict()
        for v in self.violations:
            by_key.setdefault(v["key"], []).append(v)
        known_hits = {}
        unknown = collections.OrderedDict()
        for key, vs in by_key.items():
            if key in known:
                known_hits[key] = len(vs)
            else:
                unknown[key] = vs
        lines = []
        for key in known_hits:
            lines.append(f"KNOWN-FINDING: property={self.prop} {key}: {known[key]}")
        rdir = os.path.join(os.environ.get("VF_REPLAY_DIR") or os.path.join(VERIF, "replays"), self.prop)
        for i, (key, vs) in enumerate(unknown.items()):
            os.makedirs(rdir, exist_ok=True)
            name = re.sub(r"[^A-Za-z0-9_.=-]+", "_", key)[:80] + "_" + hashlib.sha1(key.encode()).hexdigest()[:8]
            path = os.path.join(rdir, name + ".json")
            with open(path, "w") as f:
                json.dump(
                    {
                        "property": self.prop,
                        "tier": self.tier,
                        "seed": self.seed,
                        "mechanism": key,
                        "count": len(vs),
                        "cases": vs[:5],
                    },
                    f,
                    indent=1,
                    sort_keys=True,
                )
            if i < 40:
                lines.append(f"VIOLATION property={self.prop} replay={path}")
                lines.append(f"  mechanism={key} cases={len(vs)} first: {vs[0]['summary'][:300]}")
        inconclusive = []
        for counter, minimum, why in self.needs:
            if counter in self.counters:
                got = self.counters[counter]
            elif counter in self.sets:
                got = len(self.sets[counter])
            else:
                got = 0
            if got < minimum:
                inconclusive.append(f"{counter}={got}<{minimum} {why}".strip())
        for he in self.harness_errors[:5]:
            inconclusive.append("harness-error: " + he[-600:].replace("\n", " | "))
        if not unknown:
            for r in inconclusive:
                lines.append(f"INCONCLUSIVE property={self.prop} reason={r}")
        wall = time.time() - self.t0
        coverage = {
            "evaluations": int(self.counters.get("evaluations", 0)),
            "distinct_nontrivial": len(self.shapes),
            "rule": rule,
            "samples": self.samples or [{"note": "no sample recorded"}],
            "counters": dict(sorted(self.counters.items())),
            "distinct_sets": {k: len(v) for k, v in sorted(self.sets.items())},
            "set_members": {k: sorted(v)[:40] for k, v in sorted(self.sets.items()) if len(v) <= 400},
            "known_finding_hits": known_hits,
            "unlisted_violation_mechanisms": list(unknown.keys())[:40],
            "inconclusive_reasons": inconclusive,
            "minimums": [{"counter": c, "minimum": m, "why": w} for c, m, w in self.needs],
            "notes": self.notes,
            "harness_errors": len(self.harness_errors),
        }
        if exhaustive is not None:
            coverage["exhaustive"] = bool(exhaustive)
        if extra:
            coverage.update(_jsonable(extra))
        ev = {
            "property_id": self.prop,
            "tier": self.tier,
            "seed": int(self.seed),
            "level": level,
            "coverage": coverage,
            "assumptions": list(assumptions),
            "wall_s": round(wall, 2),
            "violations": len(unknown),
        }
        evdir = os.environ.get("VF_EVIDENCE_DIR") or os.path.join(VERIF, "evidence")
        os.makedirs(evdir, exist_ok=True)
        with open(os.path.join(evdir, f"{self.prop}.json"), "w") as f:
            json.dump(ev, f, indent=1, sort_keys=True)
        for ln in lines:
            print(ln)
        status = "VIOLATED" if unknown else ("INCONCLUSIVE" if inconclusive else "HELD")
        print(
            f"[{self.prop}] {status} tier={self.tier} seed={self.seed} evaluations={coverage['evaluations']} "
            f"distinct_nontrivial={coverage['distinct_nontrivial']} known={sum(known_hits.values())} "
            f"unlisted={sum(len(v) for v in unknown.values())} wall={wall:.1f}s"
        )
        sys.stdout.flush()
        if unknown:
            return 1
        if inconclusive:
            return 2
        return 0


# --------------------------------------------------------------------------------------------
# worker-side result helper


class Res:
    """Accumulates one worker-side result; .out() is JSON-able and mergeable by Check.merge."""

    def __init__(self):
        self.counters = collections.Counter()
        self.shapes = set()
        self.samples = []
        self.violations = []
        self.sets = collections.defaultdict(set)

    def count(self, name, n=1):
        self.counters[name] += n

    def shape(self, key):
        if not isinstance(key, str):
            key = json.dumps(_jsonable(key), sort_keys=True)
        self.shapes.add(hashlib.sha1(key.encode()).hexdigest()[:16])

    def sample(self, obj, cap=3):
        if len(self.samples) < cap:
            self.samples.append(_jsonable(obj))

    def seen(self, setname, item):
        self.sets[setname].add(item if isinstance(item, str) else json.dumps(_jsonable(item), sort_keys=True))

    def violation(self, key, summary, witness=None):
        if len(self.violations) < 200:
            self.violations.append({"key": key, "summary": str(summary)[:2000], "witness": _jsonable(witness)})
        self.counters["violations_raw"] += 1

    def out(self):
        return {
            "counters": dict(self.counters),
            "shapes": sorted(self.shapes),
            "samples": self.samples,
            "violations": self.violations,
            "sets": {k: sorted(v) for k, v in self.sets.items()},
        }


# --------------------------------------------------------------------------------------------
# parallel map over worker interpreters


def pmap(modfunc, payloads, nproc=None, timeout=900, env=None, extra_path=(), hashseed="0", pyargs=()):
    """Run `module:function(payload)` for every payload in worker interpreters; results in order.

    A payload with no result (worker died / timed out) is re-run alone; if that fails too the result
    is {'harness_error': ...}."""
    payloads = list(payloads)
    if not payloads:
        return []
    nproc = min(nproc or NPROC, len(payloads))
    d = scratch("pmap")
    env = env or child_env(extra_path=extra_path, hashseed=hashseed)
    results = [None] * len(payloads)

    def launch(idxs, tag):
        inp = os.path.join(d, f"in_{tag}.json")
        outp = os.path.join(d, f"out_{tag}.jsonl")
        with open(inp, "w") as f:
            json.dump([[i, payloads[i]] for i in idxs], f)
        errp = os.path.join(d, f"err_{tag}.txt")
        p = subprocess.Popen(
            [PY, *pyargs, "-m", "vf.worker", modfunc, inp, outp],
            env=env,
            cwd=VERIF,
            stdout=subprocess.DEVNULL,
            stderr=open(errp, "w"),
        )
        return p, outp, errp

    def collect(outp):
        if not os.path.exists(outp):
            return
        for line in open(outp):
            try:
                i, r = json.loads(line)
            except Exception:
                continue
            results[i] = r

    chunks = [list(range(k, len(payloads), nproc)) for k in range(nproc)]
    procs = [launch(c, f"c{k}") for k, c in enumerate(chunks) if c]
    deadline = time.time() + timeout
    for p, outp, errp in procs:
        try:
            p.wait(timeout=max(1, deadline - time.time()))
        except subprocess.TimeoutExpired:
            p.kill()
            p.wait()
        collect(outp)
    missing = [i for i, r in enumerate(results) if r is None]
    for n, i in enumerate(missing[:50]):
        p, outp, errp = launch([i], f"r{n}")
        try:
            p.wait(timeout=min(timeout, 300))
        except subprocess.TimeoutExpired:
            p.kill()
            p.wait()
        collect(outp)
        if results[i] is None:
            tail = open(errp).read()[-1500:] if os.path.exists(errp) else ""
            results[i] = {"harness_error": f"worker produced no result (rc={p.returncode}) for payload {i}: {tail}"}
    for i in missing[50:]:
        if results[i] is None:
            results[i] = {"harness_error": "worker died; too many missing results to retry"}
    shutil.rmtree(d, ignore_errors=True)
    return results


def run_py(args, timeout=300, env=None, cwd=None, input=None, extra_path=(), hashseed="0", pyargs=()):
    """Run one child interpreter; returns CompletedProcess-like (rc None on watchdog)."""
    env = env or child_env(extra_path=extra_path, hashseed=hashseed)
    try:
        return subprocess.run(
            [PY, *pyargs, *args], env=env, cwd=cwd or VERIF, input=input, capture_output=True, text=True, timeout=timeout
        )
    except subprocess.TimeoutExpired as e:
        class R:
            returncode = None
            stdout = (e.stdout or b"").decode() if isinstance(e.stdout, bytes) else (e.stdout or "")
            stderr = "WATCHDOG"
        return R()
