"""Tables of the independent seeded changes and which check catches them.

  python -m vf.selftest.report            full table (markdown; kept in /verif/seeded/TABLE.md)
  python -m vf.selftest.report --summary  per-property summary (DESIGN.md section 12)
"""
import json
import os
import sys

VERIF = os.path.dirname(os.path.dirname(os.path.dirname(os.path.abspath(__file__))))


def load():
    out = []
    d = os.path.join(VERIF, "seeded")
    for sid in sorted(os.listdir(d)):
        mp = os.path.join(d, sid, "meta.json")
        if os.path.exists(mp):
            out.append((sid, json.load(open(mp))))
    return out


def status(sid, m):
    """own | other:<props> | superseded | missed"""
    prop = m["breaks_property"]
    det = m.get("detected_by", {})
    if any(v.get("rc") is None for v in det.values()):
        return "superseded", []
    own = [k for k, v in det.items() if k.split(":")[0] == prop and v.get("rc") == 1]
    others = sorted({k.split(":")[0] for k, v in det.items() if k.split(":")[0] != prop and v.get("rc") == 1})
    if own:
        return "own", others
    if others:
        return "other", others
    return "missed", []


def full():
    rows = []
    for sid, m in load():
        need = " ".join(m.get("needs_to_manifest", "").split())
        first = need.split(". ")[0][:160]
        det = []
        for k, v in sorted(m.get("detected_by", {}).items()):
            if v.get("rc") == 1:
                det.append(f"{k}: {(v.get('mechanism') or '').split(' cases=')[0].replace('mechanism=', '')}")
            elif v.get("rc") is None:
                det.append(v.get("mechanism") or "superseded")
            else:
                det.append(f"{k}: MISSED (rc={v.get('rc')})")
        rows.append(f"| {sid} | {m['breaks_property']} | {first} | {'; '.join(det) or 'not run'} |")
    print("| id | property | change (first sentence of its README) | detected by |")
    print("|---|---|---|---|")
    print("\n".join(rows))


def summary():
    per = {}
    for sid, m in load():
        st, others = status(sid, m)
        p = per.setdefault(m["breaks_property"], {"own": [], "other": [], "superseded": [], "missed": []})
        p[st].append(sid.split("-")[1] + (f" ({', '.join(others)})" if st == "other" else ""))
    print("| property | changes | caught by its own check | caught by another check only | superseded (led to a repair) | missed |")
    print("|---|---|---|---|---|---|")
    tot = {"own": 0, "other": 0, "superseded": 0, "missed": 0}
    for prop in sorted(per):
        p = per[prop]
        n = sum(len(v) for v in p.values())
        for k in tot:
            tot[k] += len(p[k])
        print(f"| {prop} | {n} | {len(p['own'])}: {' '.join(p['own'])} | {'; '.join(p['other']) or '-'} | {' '.join(p['superseded']) or '-'} | {' '.join(p['missed']) or '-'} |")
    print(f"| all | {sum(tot.values())} | {tot['own']} | {tot['other']} | {tot['superseded']} | {tot['missed']} |")


if __name__ == "__main__":
    summary() if "--summary" in sys.argv else full()
