"""Markdown table of the independent seeded changes and which check catches them (for DESIGN.md section 12)."""
import json
import os

VERIF = os.path.dirname(os.path.dirname(os.path.dirname(os.path.abspath(__file__))))


def main():
    rows = []
    d = os.path.join(VERIF, "seeded")
    for sid in sorted(os.listdir(d)):
        mp = os.path.join(d, sid, "meta.json")
        if not os.path.exists(mp):
            continue
        m = json.load(open(mp))
        need = " ".join(m.get("needs_to_manifest", "").split())
        first = need.split(". ")[0][:160]
        det = []
        for k, v in sorted(m.get("detected_by", {}).items()):
            if v.get("rc") == 1:
                det.append(f"{k}: {(v.get('mechanism') or '').split(' cases=')[0].replace('mechanism=', '')}")
            elif v.get("rc") is None:
                det.append(v.get("mechanism") or "superseded")
            else:
                det.append(f"{k}: MISSED (rc={v.get('rc')})")
        rows.append(f"| {sid} | {m['breaks_property']} | {first} | {'; '.join(det) or 'not run'} |")
    print("| id | property | change (first sentence of its README) | detected by |")
    print("|---|---|---|---|")
    print("\n".join(rows))


if __name__ == "__main__":
    main()
