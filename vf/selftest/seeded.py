"""Independent seeded changes (written by sub-agents that saw only a property's text).

  python -m vf.selftest.seeded verify <dir with patch.diff, demo.py, README.md> <property> <id>
      confirms in a scratch copy of /repo: patch applies, test-suite outcome unchanged, demo passes without
      and fails with the change; then stores /verif/seeded/<id>/ (patch.diff, demo.py, README.md, meta.json)
  python -m vf.selftest.seeded check <id> [--tier quick] [properties...]
      applies the stored patch to a scratch copy and runs the quick checks (default: the property it breaks)
"""
import json
import os
import shutil
import subprocess
import sys
import tempfile

VERIF = os.path.dirname(os.path.dirname(os.path.dirname(os.path.abspath(__file__))))
SEEDED = os.path.join(VERIF, "seeded")


def copy_repo():
    d = tempfile.mkdtemp(prefix="vfseed_")
    dst = os.path.join(d, "repo")
    shutil.copytree("/repo", dst, ignore=shutil.ignore_patterns(".git", "__pycache__", "*.sqlite3", "*.egg-info", "doc"))
    return d, dst


def apply_patch(repo, patch):
    r = subprocess.run(["patch", "-p1", "-d", repo, "-i", patch], capture_output=True, text=True)
    return r.returncode == 0, r.stdout + r.stderr


def run_suite(repo):
    r = subprocess.run(["/venv/bin/python", "-m", "pytest", "-q", "-p", "no:cacheprovider", "--timeout=900"], cwd=repo,
                       env=dict(os.environ, PYTHONPATH=repo), capture_output=True, text=True)
    import re

    lines = [re.sub(r" in [0-9.]+s.*$", "", re.sub(r", \d+ warnings?", "", ln)) for ln in r.stdout.splitlines() if ln.startswith("FAILED") or " passed" in ln]
    return lines


def run_demo(repo, demo):
    r = subprocess.run(["/venv/bin/python", demo], cwd=os.path.dirname(demo), env=dict(os.environ, PYTHONPATH=repo), capture_output=True, text=True, timeout=600)
    return r.returncode, (r.stdout + r.stderr)[-600:]


def verify(src, prop, sid):
    patch, demo = os.path.join(src, "patch.diff"), os.path.join(src, "demo.py")
    d, repo = copy_repo()
    try:
        base_suite = run_suite(repo)
        rc0, out0 = run_demo(repo, demo)
        ok, msg = apply_patch(repo, patch)
        if not ok:
            print("patch does not apply:", msg)
            return 1
        mut_suite = run_suite(repo)
        rc1, out1 = run_demo(repo, demo)
    finally:
        shutil.rmtree(d, ignore_errors=True)
    print("suite base:", base_suite[-2:])
    print("suite with change:", mut_suite[-2:])
    print("demo without:", rc0, "| demo with:", rc1)
    good = base_suite == mut_suite and rc0 == 0 and rc1 != 0
    if not good:
        print("NOT CONFIRMED", out0[-300:], out1[-300:])
        return 1
    out = os.path.join(SEEDED, sid)
    os.makedirs(out, exist_ok=True)
    for f in ("patch.diff", "demo.py", "README.md"):
        if os.path.exists(os.path.join(src, f)):
            shutil.copy(os.path.join(src, f), os.path.join(out, f))
    readme = open(os.path.join(src, "README.md")).read() if os.path.exists(os.path.join(src, "README.md")) else ""
    meta = {"id": sid, "breaks_property": prop, "needs_to_manifest": readme.strip()[:1500],
            "confirmed": {"suite_without": base_suite[-1:], "suite_with": mut_suite[-1:], "demo_exit_without": rc0, "demo_exit_with": rc1,
                          "how": "scratch copy of /repo; patch -p1; pytest -q -p no:cacheprovider; PYTHONPATH=<copy> python demo.py"},
            "detected_by": {}}
    json.dump(meta, open(os.path.join(out, "meta.json"), "w"), indent=1)
    print("stored", out)
    return 0


def check(sid, props, tier="quick"):
    out = os.path.join(SEEDED, sid)
    meta = json.load(open(os.path.join(out, "meta.json")))
    props = props or [meta["breaks_property"]]
    if any(v.get("rc") is None for v in meta.get("detected_by", {}).values()):
        print(f"{sid}: superseded (the defect it led to was repaired; see meta.json), not re-run")
        return 0
    d, repo = copy_repo()
    try:
        ok, msg = apply_patch(repo, os.path.join(out, "patch.diff"))
        if not ok:
            print("patch does not apply any more:", msg[-300:])
            return 1
        for prop in props:
            env = dict(os.environ, VF_REPO=repo, VF_EVIDENCE_DIR=os.path.join(d, "ev"), VF_REPLAY_DIR=os.path.join(d, "rp"))
            r = subprocess.run([os.path.join(VERIF, "check"), prop, "--tier", tier], env=env, capture_output=True, text=True)
            mech = [ln.strip() for ln in r.stdout.splitlines() if ln.strip().startswith("mechanism=")]
            print(f"{sid} {prop} {tier}: rc={r.returncode} " + ("DETECTED " + mech[0][:160] if r.returncode == 1 and mech else "MISSED" if r.returncode != 1 else "DETECTED"), flush=True)
            meta["detected_by"][f"{prop}:{tier}"] = {"rc": r.returncode, "mechanism": mech[0][:200] if mech else None}
    finally:
        shutil.rmtree(d, ignore_errors=True)
    json.dump(meta, open(os.path.join(out, "meta.json"), "w"), indent=1)
    return 0


if __name__ == "__main__":
    a = sys.argv[1:]
    if a[0] == "verify":
        sys.exit(verify(a[1], a[2], a[3]))
    tier = "quick"
    if "--tier" in a:
        i = a.index("--tier")
        tier = a[i + 1]
        del a[i:i + 2]
    sys.exit(check(a[1], a[2:], tier))
