"""Self-test driver (DESIGN 10.2; not part of any registered check).

  python -m vf.selftest.mutate <name> [...]        run named mutants from mutants.py
  python -m vf.selftest.mutate --patch file.diff C07 [C01 ...]   apply a diff to a scratch copy, run checks

Copies /repo to a scratch directory outside /repo and /verif, applies the mutation, runs the quick check
with VF_REPO pointing there (evidence/replays redirected to scratch), expects exit 1 + VIOLATION line."""
import os
import shutil
import subprocess
import sys
import tempfile

VERIF = os.path.dirname(os.path.dirname(os.path.dirname(os.path.abspath(__file__))))


def make_copy():
    d = tempfile.mkdtemp(prefix="vfmut_")
    dst = os.path.join(d, "repo")
    shutil.copytree("/repo", dst, ignore=shutil.ignore_patterns(".git", "__pycache__", "*.sqlite3", "*.egg-info", "doc"))
    return d, dst


def run_check(prop, repo, scratch, tier="quick", seed=None):
    env = dict(os.environ, VF_REPO=repo, VF_EVIDENCE_DIR=os.path.join(scratch, "ev"), VF_REPLAY_DIR=os.path.join(scratch, "rp"))
    if seed is not None:
        env["VERIF_SEED"] = str(seed)
    p = subprocess.run([os.path.join(VERIF, "check"), prop, "--tier", tier], env=env, capture_output=True, text=True)
    return p.returncode, p.stdout + p.stderr


def apply_edit(repo, rel, old, new, count=1):
    path = os.path.join(repo, rel)
    s = open(path).read()
    if s.count(old) < 1:
        raise SystemExit(f"mutant anchor not found in {rel}: {old!r}")
    s = s.replace(old, new, count)
    open(path, "w").write(s)


def run_tests(repo):
    p = subprocess.run(
        ["/venv/bin/python", "-m", "pytest", "-q", "-p", "no:cacheprovider", "-x", "--timeout=900"],
        cwd=repo, env=dict(os.environ, PYTHONPATH=repo), capture_output=True, text=True,
    )
    tail = (p.stdout.strip().splitlines() or [""])[-1]
    return tail


def main(argv):
    from vf.selftest.mutants import MUTANTS

    if argv and argv[0] == "--patch":
        patch = os.path.abspath(argv[1])
        props = argv[2:]
        d, repo = make_copy()
        try:
            subprocess.run(["git", "apply", "--unsafe-paths", "--directory", repo, patch], check=False, cwd="/")
            r = subprocess.run(["patch", "-p1", "-d", repo, "-i", patch], capture_output=True, text=True)
            print(r.stdout[-300:])
            for prop in props:
                rc, out = run_check(prop, repo, d)
                print(f"== {prop}: rc={rc}")
                print("\n".join(l for l in out.splitlines() if l.startswith(("VIOLATION", "  mech", "[", "INCONCL", "KNOWN")))[:3000])
        finally:
            shutil.rmtree(d, ignore_errors=True)
        return 0
    names = argv or sorted(MUTANTS)
    tests = "--tests" in names
    names = [n for n in names if n != "--tests"] or sorted(MUTANTS)
    bad = 0
    for name in names:
        m = MUTANTS[name]
        d, repo = make_copy()
        try:
            line = f"{name:40s}"
            try:
                for e in m["edits"]:
                    apply_edit(repo, *e)
            except SystemExit as ex:
                print(line + " ANCHOR-MISSING " + str(ex)[:100], flush=True)
                bad += 1
                continue
            if tests:
                line += " tests[" + run_tests(repo)[-40:] + "]"
            for prop in m["props"]:
                rc, out = run_check(prop, repo, d)
                mech = [l.strip() for l in out.splitlines() if l.strip().startswith("mechanism=")]
                line += f" {prop}:rc={rc}"
                if rc != 1:
                    bad += 1
                    line += " MISSED"
                elif mech:
                    line += " (" + mech[0][:90] + ")"
            print(line, flush=True)
        finally:
            shutil.rmtree(d, ignore_errors=True)
    return 1 if bad else 0


if __name__ == "__main__":
    sys.exit(main(sys.argv[1:]))
