#!/bin/sh
# Re-run every stored seeded change against the quick tier of the property it breaks (4 at a time); summary on stdout.
# usage: vf/selftest/battery.sh [id-glob]      e.g. battery.sh 'C0[1-3]-*'
here="$(cd "$(dirname "$0")/../.." && pwd)"
cd "$here" || exit 2
pat="${1:-C*}"
ls -d seeded/$pat 2>/dev/null | xargs -n1 basename | grep -v README | \
  xargs -P "${VF_BATTERY_JOBS:-4}" -I{} sh -c 'PYTHONPATH='"$here"' /venv/bin/python -m vf.selftest.seeded check {} 2>&1 | tail -1 | cut -c1-220'
