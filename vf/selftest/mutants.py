"""Hand-written mutants (DESIGN 6 'M' lists): name -> {'props': [...], 'edits': [(file, old, new), ...]}."""
T = "monkeytype/typing.py"
E = "monkeytype/encoding.py"
S = "monkeytype/db/sqlite.py"
TR = "monkeytype/tracing.py"
CF = "monkeytype/config.py"
ST = "monkeytype/stubs.py"
CLI = "monkeytype/cli.py"
TC = "monkeytype/type_checking_imports_transformer.py"
MUTANTS = {
    "c04_required_any": {
        "props": ["C04"],
        "edits": [(T, "if len(value_types) == num_typed_dicts\n    }", "if len(value_types) >= 1\n    }")],
    },
    "c04_list_first_arg": {
        "props": ["C04"],
        "edits": [(T, '(getattr(typ, "__args__")[0] for typ in types), max_typed_dict_size', '(getattr(typ, "__args__")[0] for typ in types[:1]), max_typed_dict_size')],
    },
    "c04_fallback_drops_optional": {
        "props": ["C04"],
        "edits": [(T, "chain(required_fields.values(), optional_fields.values())", "chain(required_fields.values())")],
    },
    "c05_mixed_to_any": {
        "props": ["C05"],
        "edits": [(T, "    return Union[all_dict_types]", "    return Any if len(all_dict_types) > 3 else Union[all_dict_types]")],
    },
    "c05_extra_none": {
        "props": ["C05"],
        "edits": [(T, "    return Union[all_dict_types]", "    return Union[all_dict_types + (type(None),)] if len(all_dict_types) > 2 else Union[all_dict_types]")],
    },
    "c05_optional_flip": {
        "props": ["C05", "C04"],
        "edits": [(T, "        if len(value_types) != num_typed_dicts:\n            optional_fields[key] = value_types", "        if len(value_types) != num_typed_dicts or num_typed_dicts > 2:\n            optional_fields[key] = value_types"),
                  (T, "if len(value_types) == num_typed_dicts\n    }", "if len(value_types) == num_typed_dicts and num_typed_dicts <= 2\n    }")],
    },
    "c06_le_k_plus_1": {
        "props": ["C06"],
        "edits": [(T, "len(dct) <= max_typed_dict_size", "len(dct) <= max_typed_dict_size + 1")],
    },
    "c06_merge_ge": {
        "props": ["C06"],
        "edits": [(T, "len(required_fields) + len(optional_fields) > max_typed_dict_size:", "len(required_fields) + len(optional_fields) > max_typed_dict_size + 1:")],
    },
    "c06_zero_unlimited": {
        "props": ["C06"],
        "edits": [(T, "max_typed_dict_size is None or len(dct)", "not max_typed_dict_size or len(dct)")],
    },
    "c07_large_union_lt": {
        "props": ["C07"],
        "edits": [(T, "if len(union.__args__) <= self.max_union_len:", "if len(union.__args__) < self.max_union_len:")],
    },
    "c07_configdict_no_keycheck": {
        "props": ["C07"],
        "edits": [(T, "            if key_type != e.__args__[0]:\n                return union\n", "")],
    },
    "c07_common_base_first_only": {
        "props": ["C07"],
        "edits": [(T, "        common_bases = functools.reduce(self._merge_common_bases, all_bases)", "        common_bases = functools.reduce(self._merge_common_bases, all_bases[:2])")],
    },
    "c07_empty_matches_all": {
        "props": ["C07"],
        "edits": [(T, "        return self._is_empty(typ) and any(\n            not self._is_empty(e)\n            and getattr(e, \"__origin__\", None) is getattr(typ, \"__origin__\", None)", "        return self._is_empty(typ) and any(\n            not self._is_empty(e)\n            and getattr(e, \"__origin__\", None) is not None")],
    },
    "c07_generator_ignores_send": {
        "props": ["C07"],
        "edits": [(T, "if args[1] is NoneType and args[2] is NoneType:", "if args[1] is NoneType:")],
    },
    "c07_large_union_ancestor_first_two": {
        "props": ["C07"],
        "edits": [(T, "                and all(issubclass(t, ancestor) for t in union.__args__)", "                and all(issubclass(t, ancestor) for t in union.__args__[:3])")],
    },
    "c08_no_sort_keys": {
        "props": ["C08"],
        "edits": [(E, "    type_dict = type_to_dict(typ)\n    return json.dumps(type_dict, sort_keys=True)", "    type_dict = type_to_dict(typ)\n    return json.dumps(type_dict)")],
    },
    "c08_empty_tuple_bare": {
        "props": ["C08"],
        "edits": [(E, "    if elem_type_dicts is not None and is_generic(typ):", "    if elem_type_dicts and is_generic(typ):")],
    },
    "c08_nonetype_is_none": {
        "props": ["C08"],
        "edits": [(E, '    if (encoded is None) or (encoded == "null"):', '    if (encoded is None) or ("NoneType" in encoded and "elem_types" not in encoded):')],
    },
    "c08_unwrap_dropped": {
        "props": ["C08"],
        "edits": [("monkeytype/util.py", "    func = inspect.unwrap(func)\n", "    func = getattr(func, '__wrapped__', func)\n")],
    },
    "c08_typed_dict_total_lost": {
        "props": ["C08"],
        "edits": [(E, '        d["qualname"], {k: type_from_dict(v) for k, v in d["elem_types"].items()}\n', '        d["qualname"], {k: type_from_dict(v) for k, v in sorted(d["elem_types"].items())[:3]}\n')],
    },
    "c09_no_group_by": {
        "props": ["C09"],
        "edits": [(S, "    GROUP BY\n        module, qualname, arg_types, return_type, yield_type\n", "")],
    },
    "c09_like_again": {
        "props": ["C09"],
        "edits": [(S, 'raw_query += " AND substr(qualname, 1, length(?)) == ?"\n        values.extend([qualname, qualname])', 'raw_query += " AND qualname LIKE ? || \'%\'"\n        values.append(qualname)')],
    },
    "c09_contains_not_prefix": {
        "props": ["C09"],
        "edits": [(S, 'raw_query += " AND substr(qualname, 1, length(?)) == ?"\n        values.extend([qualname, qualname])', 'raw_query += " AND instr(qualname, ?) > 0"\n        values.append(qualname)')],
    },
    "c09_module_like": {
        "props": ["C09"],
        "edits": [(S, "        module == ?\n", "        module LIKE ?\n")],
    },
    "c09_autocommit": {
        "props": ["C09"],
        "edits": [(S, "        conn = sqlite3.connect(connection_string)\n", "        conn = sqlite3.connect(connection_string, isolation_level=None)\n")],
    },
    "c09_serialize_not_catching": {
        "props": ["C09"],
        "edits": [(E, "        except Exception:\n            logger.exception(\"Failed to serialize trace\")", "        except KeyError:\n            logger.exception(\"Failed to serialize trace\")")],
    },
    "c09_insert_before_serialize_all": {
        "props": ["C09"],
        "edits": [(S, """        with self.conn:
            self.conn.executemany(
                "INSERT INTO {table} VALUES (?, ?, ?, ?, ?, ?)".format(
                    table=self.table
                ),
                values,
            )""", """        for i in range(0, len(values), 4):
            with self.conn:
                self.conn.executemany(
                    "INSERT INTO {table} VALUES (?, ?, ?, ?, ?, ?)".format(
                        table=self.table
                    ),
                    values[i : i + 4],
                )""")],
    },
    "c09_limit_in_subquery": {
        "props": ["C09"],
        "edits": [(S, "    FROM {table}\n    WHERE\n", "    FROM (SELECT * FROM {table} LIMIT 50)\n    WHERE\n")],
    },
    "c02_drop_kwonly": {
        "props": ["C02"],
        "edits": [(TR, "arg_names = code.co_varnames[: code.co_argcount + code.co_kwonlyargcount]", "arg_names = code.co_varnames[: code.co_argcount]")],
    },
    "c02_log_every_yield": {
        "props": ["C02"],
        "edits": [(TR, "                trace.add_yield_type(\n                    get_type(arg, max_typed_dict_size=self.max_typed_dict_size)\n                )\n", "                trace.add_yield_type(\n                    get_type(arg, max_typed_dict_size=self.max_typed_dict_size)\n                )\n                self.logger.log(trace)\n")],
    },
    "c02_last_yield_only": {
        "props": ["C02"],
        "edits": [(TR, "            self.yield_type = cast(type, Union[self.yield_type, typ])", "            self.yield_type = typ")],
    },
    "c02_cache_by_name": {
        "props": ["C02"],
        "edits": [(TR, "        key = (code.co_filename, code)\n", "        key = (code.co_filename, code.co_name)\n")],
    },
    "c02_return_on_exception": {
        "props": ["C02"],
        "edits": [(TR, "            if last_opcode in RETURN_OPCODES:\n                trace.return_type = get_type(", "            if True:\n                trace.return_type = get_type(")],
    },
    "c02_no_delete": {
        "props": ["C02"],
        "edits": [(TR, "            del self.traces[frame]\n", "")],
    },
    "c02_await_regress": {
        "props": ["C02"],
        "edits": [(TR, "            if not frame.f_code.co_flags & inspect.CO_COROUTINE:\n", "            if True:\n")],
    },
    "c02_return_const_regress": {
        "props": ["C02"],
        "edits": [(TR, 'for name in ("RETURN_VALUE", "RETURN_CONST")', 'for name in ("RETURN_VALUE",)')],
    },
    "c02_locals_at_return": {
        "props": ["C02"],
        "edits": [(TR, "            self.logger.log(trace)\n", "            for name in list(trace.arg_types):\n                if name in frame.f_locals and frame.f_code.co_flags & inspect.CO_GENERATOR:\n                    trace.arg_types[name] = get_type(frame.f_locals[name], max_typed_dict_size=self.max_typed_dict_size)\n            self.logger.log(trace)\n")],
    },
    "c02_skip_property_setter_check": {
        "props": ["C02"],
        "edits": [(TR, "    elif issubclass(typ, property) and (val.fset is None) and (val.fdel is None):", "    elif issubclass(typ, property) and (val.fset is not None):")],
    },
    "c18_inverted": {
        "props": ["C18"],
        "edits": [(TR, "self._random.randrange(self.sample_rate) != 0:", "self._random.randrange(self.sample_rate) == 0:")],
    },
    "c18_sample_on_return": {
        "props": ["C18"],
        "edits": [(TR, "        trace = self.traces.get(frame)\n        if trace is None:\n            return\n", "        trace = self.traces.get(frame)\n        if trace is None:\n            return\n        if self.sample_rate and self.sample_rate > 1 and random.randrange(50) == 0:\n            return\n")],
    },
    "c18_rate_ignored": {
        "props": ["C18"],
        "edits": [("monkeytype/tracing.py", "    sys.setprofile(CallTracer(logger, max_typed_dict_size, code_filter, sample_rate))", "    sys.setprofile(CallTracer(logger, max_typed_dict_size, code_filter))")],
    },
    "c18_resumption_regress": {
        "props": ["C18"],
        "edits": [(TR, "        if _is_resumption(frame):\n", "        if False and _is_resumption(frame):\n")],
    },
    "c18_off_by_one_rate": {
        "props": ["C18"],
        "edits": [(TR, "self._random.randrange(self.sample_rate) != 0:", "self._random.randrange(self.sample_rate + 1) != 0:")],
    },
    "c17_no_purelib": {
        "props": ["C17"],
        "edits": [(CF, 'for n in ["stdlib", "purelib", "platlib"]', 'for n in ["stdlib"]')],
    },
    "c17_main_logged": {
        "props": ["C17"],
        "edits": [("monkeytype/db/base.py", '        if not trace.func.__module__ == "__main__":\n            self.traces.append(trace)', '        self.traces.append(trace)')],
    },
    "c17_no_resolve": {
        "props": ["C17"],
        "edits": [(CF, "    filename = pathlib.Path(code.co_filename).resolve()", "    filename = pathlib.Path(code.co_filename).absolute()")],
    },
    "c17_allow_substring": {
        "props": ["C17"],
        "edits": [(CF, "return any(m == filename.stem or m in filename.parts for m in trace_modules)", "return any(m == filename.stem or m in str(filename) for m in trace_modules)")],
    },
    "c17_synthetic_admitted": {
        "props": ["C17"],
        "edits": [(CF, '    if not code.co_filename or code.co_filename[0] == "<":', '    if not code.co_filename:')],
    },
    "c03_subclass_iteration": {
        "props": ["C03"],
        "edits": [(T, "    if typ is list:\n", "    if issubclass(typ, list):\n")],
    },
    "c03_dict_subclass": {
        "props": ["C03"],
        "edits": [(T, "    elif typ is dict:\n", "    elif issubclass(typ, dict) and typ is not defaultdict:\n")],
    },
    "c03_getattr_in_mro": {
        "props": ["C03"],
        "edits": [(TR, "    val = inspect.getattr_static(obj, code.co_name, None)", "    val = getattr(obj, code.co_name, None)")],
    },
    "c03_no_try": {
        "props": ["C03"],
        "edits": [(TR, "        except Exception:\n            logger.exception(\"Failed collecting trace\")", "        except KeyError:\n            logger.exception(\"Failed collecting trace\")")],
    },
    "c03_restore_none": {
        "props": ["C03"],
        "edits": [(TR, "        sys.setprofile(old_trace)\n", "        sys.setprofile(None)\n")],
    },
    "c03_flush_outside_finally": {
        "props": ["C03"],
        "edits": [(TR, """    try:
        yield
    finally:
        sys.setprofile(old_trace)
        try:
            logger.flush()
        except Exception:
            # like a failing log(), a failing flush() must not reach the traced program
            logging.getLogger(__name__).exception("Failed flushing traces")
""", """    try:
        yield
    finally:
        sys.setprofile(old_trace)
    try:
        logger.flush()
    except Exception:
        logging.getLogger(__name__).exception("Failed flushing traces")
""")],
    },
    "c03_isinstance_regress": {
        "props": ["C03"],
        "edits": [(T, "    if issubclass(typ, type):\n        return Type[obj]", "    if isinstance(obj, type):\n        return Type[obj]")],
    },
    "c03_has_code_dynamic": {
        "props": ["C03"],
        "edits": [(TR, '        func = inspect.getattr_static(func, "__wrapped__", None)', '        func = getattr(func, "__wrapped__", None)')],
    },
    "c03_flush_uncontained": {
        "props": ["C03"],
        "edits": [(TR, "        except Exception:\n            # like a failing log()", "        except KeyError:\n            # like a failing log()")],
    },
    "c03_repr_in_log": {
        "props": ["C03"],
        "edits": [(TR, "        last_opcode = frame.f_code.co_code[frame.f_lasti]\n        trace = self.traces.get(frame)", "        logger.debug(\"returned %r\", arg) if arg else None\n        last_opcode = frame.f_code.co_code[frame.f_lasti]\n        trace = self.traces.get(frame)")],
    },
    "c11_import_full_qualname": {
        "props": ["C11"],
        "edits": [(ST, '    return qualname.split(".")[0]', '    return qualname')],
    },
    "c11_nonetype_replace_removed": {
        "props": ["C11"],
        "edits": [(ST, '        rendered = rendered.replace("NoneType", "None")\n', '')],
    },
    "c11_typing_stripped_everywhere": {
        "props": ["C11"],
        "edits": [(ST, '            rendered = re.sub(r"(?<![\\w.])typing\\.", "", rendered)', '            rendered = rendered.replace("typing.", "")')],
    },
    "c11_substring_regress": {
        "props": ["C11"],
        "edits": [(ST, '        s = re.sub(r"(?<![\\w.])" + re.escape(module) + r"\\.", "", s)', '        s = s.replace(module + ".", "")')],
    },
    "c11_optional_dropped": {
        "props": ["C11"],
        "edits": [(ST, '            return "Optional[" + self.rewrite(elem_type) + "]"', '            return self.rewrite(elem_type)')],
    },
    "c11_td_nontotal_base_lost": {
        "props": ["C11"],
        "edits": [(ST, "            self._add_typed_dict_class_stub(\n                optional_fields, class_name, base_class_name, total=False\n            )", "            self._add_typed_dict_class_stub(\n                optional_fields, class_name, total=False\n            )")],
    },
    "c11_tuple_empty_render": {
        "props": ["C11"],
        "edits": [(ST, '        return ", ".join(elems) if elems else "()"', '        return ", ".join(elems) if elems else ""')],
    },
    "c12_kwonly_separator": {
        "props": ["C12"],
        "edits": [(ST, "        elif kind == inspect.Parameter.KEYWORD_ONLY and render_kw_only_separator:", "        elif kind == inspect.Parameter.KEYWORD_ONLY and render_kw_only_separator and len(formatted_params) > 0:")],
    },
    "c12_posonly_slash_dropped": {
        "props": ["C12"],
        "edits": [(ST, "    if render_pos_only_separator:\n        # There were only positional-only parameters, hence the\n        # flag was not reset to 'False'\n        formatted_params.append(\"/\")", "    if render_pos_only_separator and False:\n        formatted_params.append(\"/\")")],
    },
    "c12_default_omitted_when_annotated": {
        "props": ["C12"],
        "edits": [(ST, "    if param.default is not inspect.Parameter.empty:\n        formatted = \"{} = ...\".format(formatted)", "    if param.default is not inspect.Parameter.empty and param.annotation is inspect.Parameter.empty:\n        formatted = \"{} = ...\".format(formatted)")],
    },
    "c12_decorator_wrong_kind": {
        "props": ["C12"],
        "edits": [(ST, "        if isinstance(func_or_desc, classmethod):\n            return FunctionKind.CLASS\n        elif isinstance(func_or_desc, staticmethod):\n            return FunctionKind.STATIC", "        if isinstance(func_or_desc, staticmethod):\n            return FunctionKind.CLASS\n        elif isinstance(func_or_desc, classmethod):\n            return FunctionKind.STATIC")],
    },
    "c12_wrap_drops_last_comma_param": {
        "props": ["C12"],
        "edits": [(ST, "        if i != len(formatted_params) - 1:\n            line += \",\"", "        if i < len(formatted_params) - 2:\n            line += \",\"")],
    },
    "c12_async_lost": {
        "props": ["C12"],
        "edits": [(ST, "        is_async = asyncio.iscoroutinefunction(func)", "        is_async = asyncio.iscoroutinefunction(func) and kind == FunctionKind.MODULE")],
    },
    "c12_nested_regress": {
        "props": ["C12"],
        "edits": [(ST, "            for klass in class_path:\n                if klass not in class_stubs:", "            for klass in [\".\".join(class_path)]:\n                if klass not in class_stubs:")],
    },
    "c12_self_annotated": {
        "props": ["C12"],
        "edits": [(ST, "        is_self = has_self and arg_idx == 0", "        is_self = has_self and arg_idx == 0 and name == \"self\"")],
    },
    "c13_replicate_overrides": {
        "props": ["C13"],
        "edits": [(ST, "            (existing_annotation_strategy == ExistingAnnotationStrategy.IGNORE)\n            or not annotated", "            (existing_annotation_strategy == ExistingAnnotationStrategy.IGNORE)\n            or not annotated\n            or (typ is not inspect.Parameter.empty and arg_idx > 2)")],
    },
    "c13_omit_leaves": {
        "props": ["C13"],
        "edits": [(ST, "            annotated\n            and existing_annotation_strategy == ExistingAnnotationStrategy.OMIT\n        ):", "            annotated\n            and existing_annotation_strategy == ExistingAnnotationStrategy.OMIT\n            and param.default is inspect.Parameter.empty\n        ):")],
    },
    "c13_optional_wrap_dropped": {
        "props": ["C13"],
        "edits": [(ST, "        if not _is_optional(anno) and param.default is None:\n            anno = Optional[anno]\n        rendered", "        rendered")],
    },
    "c13_iterator_generator_inverted": {
        "props": ["C13"],
        "edits": [(ST, "        (return_type is None) or (return_type == NoneType)\n    ):", "        (return_type is None)\n    ):")],
    },
    "c13_omit_return_kept": {
        "props": ["C13"],
        "edits": [(ST, "        if existing_annotation_strategy == ExistingAnnotationStrategy.OMIT:\n            return sig.replace(return_annotation=inspect.Signature.empty)", "        if existing_annotation_strategy == ExistingAnnotationStrategy.OMIT and yield_type is None:\n            return sig.replace(return_annotation=inspect.Signature.empty)")],
    },
    "c13_ignore_flag_swapped": {
        "props": ["C13", "C01"],
        "edits": [("monkeytype/cli.py", "        const=ExistingAnnotationStrategy.OMIT,\n        help=\"Omit from stub any existing", "        const=ExistingAnnotationStrategy.IGNORE,\n        help=\"Omit from stub any existing")],
    },
    "c13_generator_send_type": {
        "props": ["C13"],
        "edits": [(ST, "        anno = make_generator(yield_type, NoneType, return_type)", "        anno = make_generator(yield_type, return_type, return_type)")],
    },
    "c01_first_trace_only": {
        "props": ["C01"],
        "edits": [(ST, "    for t in traces:\n        for arg, typ in t.arg_types.items():", "    for t in list(traces)[:3]:\n        for arg, typ in t.arg_types.items():")],
    },
    "c01_mixed_first_member": {
        "props": ["C01", "C04"],
        "edits": [(T, "    return Union[all_dict_types]", "    return Union[all_dict_types[:2]]")],
    },
    "c01_optional_rendered_plain": {
        "props": ["C01"],
        "edits": [(ST, '            return "Optional[" + self.rewrite(elem_type) + "]"', '            return self.rewrite(elem_type)')],
    },
    "c01_rewriter_drops_member": {
        "props": ["C01", "C07"],
        "edits": [(T, "            value_types.extend(e.__args__[1:])\n        return", "            value_types.extend(e.__args__[1:])\n        value_types = value_types[:2]\n        return")],
    },
    "c01_wrong_k_in_get_stub": {
        "props": ["C01", "C06"],
        "edits": [("monkeytype/cli.py", "        args.config.max_typed_dict_size(),\n        existing_annotation_strategy", "        args.config.max_typed_dict_size() + 1,\n        existing_annotation_strategy")],
    },
    "c01_return_type_of_first_only": {
        "props": ["C01"],
        "edits": [(ST, "        if t.return_type is not None:\n            return_types.add(limit.rewrite(t.return_type))", "        if t.return_type is not None and not return_types:\n            return_types.add(limit.rewrite(t.return_type))")],
    },
    "c01_limit_low": {
        "props": ["C01"],
        "edits": [("monkeytype/config.py", "        return 2000\n", "        return 3\n")],
    },
    "c10_catch_only_namelookup": {
        "props": ["C10"],
        "edits": [("monkeytype/cli.py", "        except MonkeyTypeError as mte:\n            if args.verbose:", "        except NameLookupError as mte:\n            if args.verbose:"),
                  ("monkeytype/cli.py", "from monkeytype.exceptions import MonkeyTypeError", "from monkeytype.exceptions import MonkeyTypeError, NameLookupError")],
    },
    "c10_stop_at_first_failure": {
        "props": ["C10"],
        "edits": [("monkeytype/cli.py", "            failed_to_decode_count += 1\n", "            failed_to_decode_count += 1\n            break\n")],
    },
    "c10_count_on_stdout": {
        "props": ["C10"],
        "edits": [("monkeytype/cli.py", '            f"{failed_to_decode_count} traces failed to decode; use -v for details",\n            file=stderr,', '            f"{failed_to_decode_count} traces failed to decode; use -v for details",\n            file=stdout,')],
    },
    "c10_invalidtype_not_mte": {
        "props": ["C10"],
        "edits": [("monkeytype/exceptions.py", "class InvalidTypeError(MonkeyTypeError):", "class InvalidTypeError(Exception):")],
    },
    "c10_no_traces_silent": {
        "props": ["C10"],
        "edits": [("monkeytype/cli.py", "    if output is None:\n        complain_about_no_traces(args, stderr)\n        return", "    if output is None:\n        return")],
    },
    "c10_apply_exits_nonzero_on_failures": {
        "props": ["C10"],
        "edits": [("monkeytype/cli.py", "    stub = get_stub(args, stdout, stderr)\n    if stub is None:\n        complain_about_no_traces(args, stderr)\n        return\n    module = args.module_path[0]", "    stub = get_stub(args, stdout, stderr)\n    if stub is None:\n        complain_about_no_traces(args, stderr)\n        raise HandlerError('no traces')\n    module = args.module_path[0]")],
    },
    "c10_property_check_dropped": {
        "props": ["C10"],
        "edits": [("monkeytype/util.py", "            if (func.fset is None) and (func.fdel is None):\n                func = func.fget\n            else:\n                raise InvalidTypeError(\n                    f\"Property {module}.{qualname} has setter or deleter.\"\n                )", "            func = func.fget")],
    },
    "c14_functions_not_sorted": {
        "props": ["C14"],
        "edits": [(ST, "        for func_stub in sorted(self.function_stubs.values(), key=lambda s: s.name):\n            parts.append(func_stub.render())", "        for func_stub in self.function_stubs.values():\n            parts.append(func_stub.render())")],
    },
    "c14_required_by_first_seen": {
        "props": ["C14", "C04"],
        "edits": [(T, "        if len(value_types) == num_typed_dicts\n    }", "        if key in field_annotations(typed_dicts[0])[0]\n    }"),
                  (T, "        if len(value_types) != num_typed_dicts:\n            optional_fields[key] = value_types", "        if key not in field_annotations(typed_dicts[0])[0]:\n            optional_fields[key] = value_types")],
    },
    "c14_import_names_unsorted": {
        "props": ["C14"],
        "edits": [(ST, "            names = sorted(self.imports[module])", "            names = list(self.imports[module])")],
    },
    "c14_large_union_regress": {
        "props": ["C14"],
        "edits": [(T, "                return min(specific, key=lambda a: (a.__module__, a.__qualname__))", "                return specific[0]")],
    },
    "c14_attribute_stubs_unsorted": {
        "props": ["C14"],
        "edits": [(ST, "                for stub in sorted(self.attribute_stubs, key=lambda stub: stub.name)", "                for stub in self.attribute_stubs")],
    },
    "c15_overwrite_inverted": {
        "props": ["C15"],
        "edits": [(CLI, "            overwrite_existing_annotations,\n            use_future_annotations", "            not overwrite_existing_annotations,\n            use_future_annotations")],
    },
    "c15_file_not_written": {
        "props": ["C15"],
        "edits": [(CLI, "    source_path.write_text(source_with_types)\n", "    Path(str(source_path) + '.typed').write_text(source_with_types)\n")],
    },
    "c16_block_before_future": {
        "props": ["C16"],
        "edits": [(TC, "        type_checking_block_add_location = 0\n", "        type_checking_block_add_location = 0\n        return ([], list(module.body))\n")],
    },
    "c16_import_removal_regress": {
        "props": ["C16", "C15"],
        "edits": [(TC, "                if import_item.module_name == module_name and not import_item.obj_name:", "                if import_item.module_name == module_name:")],
    },
    "c16_alias_regress": {
        "props": ["C16"],
        "edits": [(TC, "                    and import_item.alias == alias\n", "")],
    },
    "c16_typeddict_confined": {
        "props": ["C16"],
        "edits": [(TC, '            if import_item.module_name not in ("typing", "mypy_extensions"):', '            if import_item.module_name not in ("typing",):')],
    },
    "c16_no_future_import": {
        "props": ["C16"],
        "edits": [(CLI, "            use_future_annotations=confine_new_imports_in_type_checking_block,", "            use_future_annotations=False,")],
    },
    "c16_nothing_confined": {
        "props": ["C16"],
        "edits": [(CLI, "            newly_imported_items = get_newly_imported_items(stub_module, source_module)", "            newly_imported_items = get_newly_imported_items(stub_module, source_module)[:1]")],
    },
}
