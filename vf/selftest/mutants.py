"""Hand-written mutants (DESIGN 6 'M' lists): name -> {'props': [...], 'edits': [(file, old, new), ...]}."""
T = "monkeytype/typing.py"
MUTANTS = {
    "c04_required_any": {
        "props": ["C04", "C05"],
        "edits": [(T, "if len(value_types) == num_typed_dicts\n    }", "if len(value_types) >= 1\n    }")],
    },
    "c04_list_first_arg": {
        "props": ["C04"],
        "edits": [(T, '(getattr(typ, "__args__")[0] for typ in types), max_typed_dict_size', '(getattr(typ, "__args__")[0] for typ in types[:1]), max_typed_dict_size')],
    },
    "c04_fallback_drops_optional": {
        "props": ["C04"],
        "edits": [(T, "chain(required_fields.values(), optional_fields.values())", "chain(required_fields.values())")],
    },
    "c05_mixed_to_any": {
        "props": ["C05"],
        "edits": [(T, "    return Union[all_dict_types]", "    return Any if len(all_dict_types) > 3 else Union[all_dict_types]")],
    },
    "c05_extra_none": {
        "props": ["C05"],
        "edits": [(T, "    return Union[all_dict_types]", "    return Union[all_dict_types + (type(None),)] if len(all_dict_types) > 2 else Union[all_dict_types]")],
    },
    "c05_optional_flip": {
        "props": ["C05", "C04"],
        "edits": [(T, "        if len(value_types) != num_typed_dicts:\n            optional_fields[key] = value_types", "        if len(value_types) != num_typed_dicts or num_typed_dicts > 2:\n            optional_fields[key] = value_types"),
                  (T, "if len(value_types) == num_typed_dicts\n    }", "if len(value_types) == num_typed_dicts and num_typed_dicts <= 2\n    }")],
    },
    "c06_le_k_plus_1": {
        "props": ["C06"],
        "edits": [(T, "len(dct) <= max_typed_dict_size", "len(dct) <= max_typed_dict_size + 1")],
    },
    "c06_merge_ge": {
        "props": ["C06"],
        "edits": [(T, "len(required_fields) + len(optional_fields) > max_typed_dict_size:", "len(required_fields) + len(optional_fields) > max_typed_dict_size + 1:")],
    },
    "c06_zero_unlimited": {
        "props": ["C06"],
        "edits": [(T, "max_typed_dict_size is None or len(dct)", "not max_typed_dict_size or len(dct)")],
    },
}
