"""Runtime-monitoring machinery for Instagram/MonkeyType (see /verif/DESIGN.md)."""
