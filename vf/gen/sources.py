"""Source generator for C15 / C16.  DESIGN 4.5.

build(rng, name) -> dict(source=<module text>, helpers={filename: text}, features=[...])
The module is complete, importable and has `workload()` returning a JSON-able summary of what it
computed (re-run after `apply` to see that behaviour is unchanged).  Helper modules (shapes, geo.util)
are used at run time by the source, so a deleted or moved import is observable."""

HELPERS = {
    "shapes.py": '''class Circle:
    def __init__(self, r=1):
        self.r = r

    def area(self):
        return 3 * self.r * self.r

    @property
    def origin(self):
        import geo

        return geo.Origin()

    @property
    def center(self):
        import geo.util

        return geo.util.Point(0, 0)


class Square:
    def __init__(self, s=1):
        self.s = s

    def area(self):
        return self.s * self.s


def unit():
    return Circle(1)
''',
    "geo/__init__.py": "class Origin:\n    label = 'o'\n",
    "generic_defs.py": "from typing import TypeVar\n\nT = TypeVar('T')\n",
    "geo/util.py": '''class Point:
    def __init__(self, x=0, y=0):
        self.x, self.y = x, y


def origin():
    return Point()
''',
    "fastshapes.py": '''class Circle:
    def __init__(self, r=1):
        self.r = r

    def area(self):
        return 3 * self.r * self.r

    @property
    def origin(self):
        import geo

        return geo.Origin()

    @property
    def center(self):
        import geo.util

        return geo.util.Point(0, 0)


class Square:
    def __init__(self, s=1):
        self.s = s

    def area(self):
        return self.s * self.s
''',
    "typing_defs.py": '''class Tag:
    """A user class in a user module whose name merely starts with `typing`."""

    def __init__(self, label="t"):
        self.label = label
''',
    "colors.py": '''from typing_defs import Tag as _Tag


class Color:
    def __init__(self, name="red"):
        self.name = name
        self.tag = _Tag(name)


RED = Color("red")
''',
}

IMPORT_STYLES = [
    # (import lines at top, how the source refers to Circle / Square / Point / Color at run time)
    {"name": "plain-import", "lines": ["import shapes", "import geo.util", "import colors"],
     "Circle": "shapes.Circle", "Square": "shapes.Square", "Point": "geo.util.Point", "Color": "colors.Color"},
    {"name": "from-import", "lines": ["from shapes import Circle, Square", "from geo.util import Point", "from colors import Color"],
     "Circle": "Circle", "Square": "Square", "Point": "Point", "Color": "Color"},
    {"name": "aliased-from-import", "lines": ["from shapes import Circle as C, Square as Sq", "from geo.util import Point as P", "import colors as col"],
     "Circle": "C", "Square": "Sq", "Point": "P", "Color": "col.Color"},
    {"name": "aliased-module", "lines": ["import shapes as sh", "from geo import util", "from colors import Color"],
     "Circle": "sh.Circle", "Square": "sh.Square", "Point": "util.Point", "Color": "Color"},
    {"name": "function-local-import", "lines": ["import colors"], "local": True,
     "Circle": "shapes.Circle", "Square": "shapes.Square", "Point": "geo.util.Point", "Color": "colors.Color"},
    {"name": "function-local-from-import", "lines": ["import colors"], "local": "from",
     "Circle": "Circle", "Square": "Square", "Point": "Point", "Color": "colors.Color"},
    {"name": "relative-import-in-package", "lines": ["from .shapes import Circle, Square", "from .points import Point", "import colors"],
     "Circle": "Circle", "Square": "Square", "Point": "Point", "Color": "colors.Color"},
    # the same lines, but the package's `shapes` module only re-exports the classes of the top-level module of the same name
    {"name": "relative-import-of-reexport", "lines": ["from .shapes import Circle, Square", "from .points import Point", "import colors"],
     "Circle": "Circle", "Square": "Square", "Point": "Point", "Color": "colors.Color"},
    {"name": "try-except-alternative-import", "lines": ["try:", "    from fastshapes import Circle, Square", "except ImportError:", "    from shapes import Circle, Square",
                                                       "from geo.util import Point", "import colors"],
     "Circle": "Circle", "Square": "Square", "Point": "Point", "Color": "colors.Color"},
    # only part of what the stub needs from `shapes` is imported: the new name merges into a statement that stays
    {"name": "from-import-partial", "lines": ["from shapes import Square, unit", "from geo.util import Point", "from colors import Color"],
     "Circle": "type(unit())", "Square": "Square", "Point": "Point", "Color": "Color"},
    # the explicit re-export spelling: an alias equal to the name
    {"name": "reexport-alias", "lines": ["from shapes import Circle as Circle, Square as Square", "from geo.util import Point as Point", "import colors as colors"],
     "Circle": "Circle", "Square": "Square", "Point": "Point", "Color": "colors.Color"},
    {"name": "mixed", "lines": ["import shapes", "from shapes import Square", "from geo.util import Point", "from colors import *"],
     "Circle": "shapes.Circle", "Square": "Square", "Point": "Point", "Color": "Color"},
]


def build(rng, name, opts=None):
    opts = opts or {}
    st = opts.get("style") or rng.choice(IMPORT_STYLES)
    feats = ["imports:" + st["name"]]
    L = []
    force = set(opts.get("force") or ())
    forbid = set(opts.get("forbid") or ())

    def chance(p, tag):
        if tag in forbid:
            return False
        return tag in force or rng.random() < p

    if rng.random() < 0.6:
        L += ['"""Module docstring of %s.' % name, "", "second line", '"""']
        feats.append("docstring")
    if rng.random() < 0.3:
        L.append("# a leading comment after the docstring")
    fut = rng.random() < 0.35
    if fut:
        L.append(rng.choice(["from __future__ import division", "from __future__ import annotations", "from __future__ import print_function, division"]))
        feats.append("future-import")
    L.append("import functools  # needed by the decorator below")
    want_typevar = chance(0.25, "typevar-annotation")
    if want_typevar:
        L.append("from generic_defs import T")
    if chance(0.5, "typing"):
        L.append("import typing" if "typing" in force else rng.choice(["from typing import List", "from typing import Dict, List", "from typing import Optional", "import typing"]))
        feats.append("typing-import")
    if rng.random() < 0.3:
        L.append("import os.path")
        feats.append("import-os.path")
    if chance(0.3, "existing-type-checking-block") or "type-checking-block-duplicates-runtime-import" in force:
        L += ["from typing import TYPE_CHECKING", "", "if TYPE_CHECKING:", "    from collections import OrderedDict  # noqa: F401"]
        feats.append("existing-type-checking-block")
        if chance(0.5, "type-checking-block-duplicates-runtime-import"):
            # the block repeats imports the module also makes at run time (left behind by an earlier `apply --pep_563`, after which the
            # author started to use the classes at run time)
            L += ["    from shapes import Circle, Square  # noqa: F401", "    from geo.util import Point  # noqa: F401"]
            feats.append("type-checking-block-duplicates-runtime-import")
    L += st["lines"]
    if chance(0.2, "type-checking-try") and "existing-type-checking-block" not in feats:
        L += ["try:", "    from typing import TYPE_CHECKING", "except ImportError:  # very old interpreters", "    TYPE_CHECKING = False"]
        feats.append("type-checking-bound-in-try")
    L.append("")
    if chance(0.4, "module-code"):
        L += ["CONSTANT = 3  # module level code", "TABLE = {'a': 1}", ""]
        feats.append("module-code")
    loc = ""
    if st.get("local") == "from":
        loc = "    from shapes import Circle, Square\n    from geo.util import Point\n"
    elif st.get("local"):
        loc = "    import shapes\n    import geo.util\n"
    C, S, P, Col = st["Circle"], st["Square"], st["Point"], st["Color"]
    L += [
        "",
        "def deco(f):",
        "    @functools.wraps(f)",
        "    def wrapper(*a, **kw):",
        "        return f(*a, **kw)",
        "    return wrapper",
        "",
        "",
        "# comment before a function",
        "def make_circle(r):",
        "    # comment inside a body",
        loc + f"    return {C}(r)",
        "",
        "",
        "def total_area(items, scale=1):  # trailing comment on a def",
        "    acc = 0",
        "    for it in items:",
        "        acc += it.area() * scale",
        "    return acc",
        "",
        "",
    ]
    if chance(0.7, "decorated"):
        ann = rng.random() < 0.5
        L += [
            "@deco",
            f"def describe(shape, label{': object' if ann else ''} = 'x'){' -> object' if ann and rng.random() < 0.5 else ''}:",
            "    def inner(v):  # nested def",
            "        return str(v)",
            "    return label + inner(shape.area())",
            "",
            "",
        ]
        feats += ["decorated", "nested-def"] + (["partial-annotations"] if ann else [])
    if chance(0.7, "squares"):
        L += [
            "def squares(n):",
            loc + f"    return [{S}(i) for i in range(n)]",
            "",
            "",
        ]
    if chance(0.6, "all-param-kinds"):
        ann = rng.random() < 0.4
        L += [
            f"def locate(x, y=0, *rest, flag{': int' if ann else ''} = False, **kw):",
            loc + f"    return {P}(x, y)",
            "",
            "",
        ]
        feats.append("all-param-kinds")
    if chance(0.6, "none-default"):
        L += [
            "def paint(c=None):",
            f"    return (c or {Col}()).name",
            "",
            "",
        ]
        feats.append("none-default")
    if chance(0.5, "generator"):
        L += [
            "def gen_shapes(n):",
            loc + "    for i in range(n):",
            f"        yield {C}(i)",
            "",
            "",
        ]
        feats.append("generator")
    if chance(0.4, "settings"):
        L += [
            "def settings(d):",
            "    return {'size': len(d), 'keys': sorted(d)}",
            "",
            "",
        ]
        feats.append("dict-arg")
    if chance(0.35, "dict-with-class-field"):
        # a dict whose values are instances of a class of another module: with TypedDicts on, the generated class body names that class
        L += [
            "def frame(opts):",
            "    return opts['shape'].area() + opts['pad']",
            "",
            "",
        ]
        feats.append("dict-with-class-field")
    if chance(0.3, "optional-union"):
        # a position that sees two unrelated types and None
        L += [
            "def coerce(v, fallback=None):",
            "    return fallback if v is None else v",
            "",
            "",
        ]
        feats.append("optional-union")
    if chance(0.3, "class-in-compound-statement"):
        # classes that exist only inside a module-level compound statement (an optional accelerator with a pure-Python fallback)
        twin = rng.random() < 0.5
        if twin:
            L += ["if hasattr(functools, 'no_such_thing'):", "    class Encoder:", "        def encode(self, obj, width=0):", "            return repr(obj)", "else:"]
        else:
            L += ["try:", "    from _vf_no_such_speedups import Encoder", "except ImportError:"]
        L += [
            "    class Encoder:",
            "        def encode(self, obj, width=0):",
            "            return str(obj).rjust(width)",
            "",
            "",
        ]
        feats.append("class-in-compound-statement" + ("+twin" if twin else ""))
    if chance(0.4, "posonly-star"):
        L += [
            "def clamp(v, /, *, lo=0):",
            "    return max(v, lo)",
            "",
            "",
            "def join(a, /, *rest, sep):",
            "    return sep.join([a] + list(rest))",
            "",
            "",
        ]
        feats.append("posonly-star")
    if chance(0.3, "package-and-submodule-classes"):
        # one signature naming a class of a package and a class of its submodule
        L += [
            "def anchor(p, o):",
            "    return (p.x, o.label)",
            "",
            "",
        ]
        feats.append("package-and-submodule-classes")
    if want_typevar:
        # an existing annotation that uses a type variable the module imports (it has no `T = TypeVar(...)` of its own)
        L += [
            "def ident(x: T, times=1) -> T:",
            "    return x",
            "",
            "",
        ]
        feats.append("typevar-annotation")
    if chance(0.35, "typing-named-module"):
        L += [
            "def tag_of(t):",
            "    return t.label",
            "",
            "",
        ]
        feats.append("typing-named-module")
    if chance(0.4, "noncanonical-partial-annotations"):
        # existing annotations spelled differently from how a stub renders them (implicit Optional, quoted) beside unannotated positions
        L += [
            "def resize(shape, factor: float = None, tag: 'str' = 'a'):",
            "    return [shape.area() * (factor or 1.0), tag]",
            "",
            "",
        ]
        feats.append("noncanonical-partial-annotations")
    if chance(0.5, "alias-annotations"):
        if not any(ln == "import typing" for ln in L):
            idx = L.index("import functools  # needed by the decorator below")
            L.insert(idx + 1, "import typing")
        L += [
            "def scale_all(values: typing.List[int], factor: int = None) -> typing.List[int]:",
            "    return [v * (factor or 1) for v in values]",
            "",
            "",
        ]
        feats.append("alias-annotations")
    L += [
        "class Canvas:",
        '    """A class docstring."""',
        "",
        "    width = 10  # class level code",
        "",
        "    def __init__(self, shapes_=None):",
        "        self.items = list(shapes_ or [])",
        "",
        "    def add(self, shape):",
        "        self.items.append(shape)",
        "        return self",
        "",
        "    @property",
        "    def count(self):",
        "        return len(self.items)",
        "",
        "    @staticmethod",
        "    def blank():",
        "        return Canvas()",
        "",
        "    @classmethod",
        "    def of(cls, *shapes_):",
        "        return cls(shapes_)",
        "",
    ]
    if chance(0.15, "nested-class"):
        L += [
            "    class Layer:",
            "        def __init__(self, z):",
            "            self.z = z",
            "",
            "        def above(self, other):",
            "            return self.z > other.z",
            "",
        ]
        feats.append("nested-class")
    if chance(0.3, "deep-nested-class"):
        mid_method = rng.random() < 0.5
        L += ["", "class Registry:", "    class Section:"]
        if mid_method:
            L += ["        def title(self, t):", "            return t.upper()", ""]
        L += [
            "        class Entry:",
            "            def value(self, v, times=2):",
            "                return v * times",
            "",
            "            @staticmethod",
            "            def blank():",
            "                return 0",
            "",
        ]
        feats.append("deep-nested-class" + ("+mid-method" if mid_method else ""))
    if chance(0.3, "same-named-nested-classes"):
        L += ["", "class Order:", "    class Meta:", "        def table(self, prefix):", "            return prefix + 'orders'", "",
              "    def total(self, n):", "        return n * 2", "", "",
              "class Invoice:", "    class Meta:", "        def table(self, prefix, upper=False):", "            return (prefix + 'invoices').upper() if upper else prefix + 'invoices'", "",
              "        def columns(self):", "            return ['id']", "", "",
              "class Meta:", "    def table(self, n):", "        return n", ""]
        feats.append("same-named-nested-classes")
    L += ["", "def workload():", "    out = []"]
    L += ["    c = make_circle(2)", "    out.append(c.area())", "    out.append(total_area([c, make_circle(1)]))", "    out.append(total_area([], scale=2))"]
    src = "\n".join(L)
    if "def describe(" in src:
        L += ["    out.append(describe(c))", "    out.append(describe(c, label='y'))"]
    if "def squares(" in src:
        L += ["    out.append(total_area(squares(3), 2))"]
    if "def locate(" in src:
        L += ["    out.append(locate(1, 2, 3, flag=True, extra=1).x)", "    out.append(locate(1).y)"]
    if "def paint(" in src:
        L += ["    out.append(paint())", f"    out.append(paint({Col}('blue')))"]
    if "def gen_shapes(" in src:
        L += ["    out.append([s.r for s in gen_shapes(3)])"]
    if "def settings(" in src:
        L += ["    out.append(settings({'a': 1, 'b': 2}))", "    out.append(settings({'a': 1}))"]
    if "def frame(" in src:
        L += ["    out.append(frame({'shape': c, 'pad': 2}))"]
    if "def coerce(" in src:
        L += ["    out.append(coerce(1))", "    out.append(coerce('s'))", "    out.append(coerce(None))", "    out.append(coerce(None, 2.5))"]
    if "class Encoder" in src:
        L += ["    out.append(Encoder().encode(1, 3))", "    out.append(Encoder().encode('x'))"]
    if "def clamp(" in src:
        L += ["    out.append(clamp(3, lo=5))", "    out.append(join('a', 'b', sep='-'))"]
    if "def tag_of(" in src:
        L += [f"    out.append(tag_of({Col}('blue').tag))"]
    if "def anchor(" in src:
        L += ["    out.append(anchor(c.center, c.origin))"]
    if "def ident(" in src:
        L += ["    out.append(ident(1))", "    out.append(ident('s', 2))"]
    if "def resize(" in src:
        L += ["    out.append(resize(c))", "    out.append(resize(c, 2.0, tag='b'))"]
    if "def scale_all(" in src:
        L += ["    out.append(scale_all([1, 2], 3))", "    out.append(scale_all([4]))"]
    L += ["    cv = Canvas.of(c).add(make_circle(3))", "    out.append(cv.count)", "    out.append(Canvas.blank().count)", "    out.append(Canvas().width)"]
    if "class Layer" in src:
        L += ["    out.append(Canvas.Layer(2).above(Canvas.Layer(1)))"]
    if "class Registry" in src:
        L += ["    out.append(Registry.Section.Entry().value(3))", "    out.append(Registry.Section.Entry.blank())"]
        if "def title(" in src:
            L += ["    out.append(Registry.Section().title('t'))"]
    if "class Invoice" in src:
        L += ["    out.append(Order.Meta().table('t_'))", "    out.append(Invoice.Meta().table('t_', upper=True))", "    out.append(Invoice.Meta().columns())",
              "    out.append(Order().total(2))", "    out.append(Meta().table(3))"]
    if "CONSTANT" in src:
        L += ["    out.append(CONSTANT + TABLE['a'])"]
    L += ["    return out", "", "", "if __name__ == '__main__':", "    print(workload())  # end of file comment", ""]
    return {"source": "\n".join(L), "helpers": dict(HELPERS), "features": feats, "style": st["name"]}
