"""Module generator for C01 / C12 / C13.  DESIGN 4.4.

build(rng, name, opts) -> Mod with .source (target module text), .funcs (FuncSpec list), and helpers to
produce call plans.  The target module imports fixture classes from vf.fixtures.hier and defines its own."""
import re

from vf.gen import values as gv

SLOTS = [
    {"ann": "int", "vals": ["1", "2**70", "True"]},
    {"ann": "str", "vals": ["'s'", "''"]},
    {"ann": "A", "vals": ["A()", "B()", "C()"]},
    {"ann": "Own", "vals": ["Own()"]},
    {"ann": "List[int]", "vals": ["[1]", "[]", "[1, 2]"]},
    {"ann": "Dict[str, int]", "vals": ["{'a': 1}", "{}"]},
    {"ann": "Optional[str]", "vals": ["None", "'s'"]},
    {"ann": "Optional[A]", "vals": ["None", "A()"]},
    {"ann": "'Own'", "vals": ["Own()"]},
    {"ann": "UserId", "vals": ["UserId(7)"]},
    {"ann": "Tuple[int, str]", "vals": ["(1, 'a')"]},
    {"ann": "Callable", "vals": ["func", "len"]},
    # spelled-out callable signatures (they can only come from the source: inference gives the bare Callable)
    {"ann": "Callable[[], int]", "vals": ["zero"]},
    {"ann": "Callable[[int, str], A]", "vals": ["func"]},
    {"ann": "Callable[..., Any]", "vals": ["func", "len"]},
    {"ann": "Optional[Callable[[], int]]", "vals": ["zero", "None"]},
    {"ann": "Set[str]", "vals": ["{'a'}", "set()"]},
    {"ann": "Union[int, str]", "vals": ["1", "'s'"]},
    {"ann": "Own.Inner", "vals": ["Own.Inner()"]},
    {"ann": "Type[A]", "vals": ["A", "B"]},
    {"ann": "PkgLevel", "vals": ["PkgLevel()"]},
    # annotations that arrive as text (quoted, as under PEP 563) with an optional type NESTED inside a non-optional one
    {"ann": "'List[Optional[int]]'", "vals": ["[1, None]", "[]"]},
    {"ann": "'Dict[str, Optional[int]]'", "vals": ["{'a': None}", "{'a': 1}"]},
    {"ann": "'Callable[[Optional[int]], str]'", "vals": ["func"]},
    {"ann": "'Tuple[Optional[str], int]'", "vals": ["(None, 1)", "('s', 2)"]},
    # annotations a type rewriter would change if it were (wrongly) applied to what the source says
    {"ann": "Union[int, str, float, bytes, A, Own]", "vals": ["1", "'s'", "1.5"]},
    {"ann": "Union[List[Any], List[int]]", "vals": ["[1]", "[]"]},
    {"ann": "Union[Dict[str, int], Dict[str, str]]", "vals": ["{'a': 1}", "{'a': 's'}"]},
]

HEADER = '''from collections import defaultdict, deque, OrderedDict
from typing import Any, Callable, DefaultDict, Dict, Iterator, Generator, List, NewType, Optional, Set, Tuple, Type, Union
from vf.fixtures.hier import A, B, C, D, M, Outer, MyList, MyDict, NT, func, lam, make_gen, MySet, MyTuple, Handler, partial, zero, raw_cmeth, lazy_prop, GetOnly, partialmethod, Movie
from vf.fixtures.hier import X1, X2, X3, X4, X5, X6, R1, R2, E1, E2, E3, E4, E5, E6, AH1, AH2, AH3, AH4, AH5, AH6
from vf.fixtures.hier import TimeoutError, Warning, KeyError_, SKey, Registry  # noqa: A004 - user classes named like builtins
from vf.fixtures.helpers import pick
from vf.fixtures import PkgLevel

NoneType = type(None)
UserId = NewType("UserId", int)


class Err(Exception):
    pass


class Own:
    class Inner:
        pass


class lazyprop(property):
    """user-defined subclasses of the builtin descriptors (as abc.abstractproperty and friends are)"""


class cmeth2(classmethod):
    pass


class smeth2(staticmethod):
    pass


def wraps_deco(f):
    import functools

    @functools.wraps(f)
    def wrapper(*a, **kw):
        return f(*a, **kw)
    return wrapper

'''

VALUE_GROUPS = [
    ["{}", "defaultdict(int, {'a': 1})"], ["[]", "[1]"], ["set()", "{1}"], ["None", "[]"], ["{}", "{'a': 1}"], ["()", "(1,)"],
    ["defaultdict(int)", "{'a': 1}"], ["[]", "None", "[A()]"], ["{1: 2}", "{}", "defaultdict(int, {1: 2})"], ["[A, B]", "[int]"],
    ["[{'a': 1}, {'a': 1, 'b': 's'}]", "[{'a': 1, 'c': 2}]"], ["[{'x': None}, {'y': 'q'}]", "[{'z': 1.5}]", "[]"],
    ["{'k': [{'a': 1}, {'b': 'x'}]}", "{'k': [{'c': 1.5}]}"], ["({'a': 1},)", "({'a': 1, 'b': 'x'},)"],
    ["Registry", "A"], ["{SKey('a'): 1}", "{'b': 2}"], ["[[]]", "[[1]]", "[]"], ["(1, 'a')", "()"],
    # a class object and instances at one position (of that class, of sibling classes)
    ["A", "A()"], ["B", "C()", "D"], ["Registry", "Registry()"], ["[A, A()]", "[B()]"], ["M", "D()", "B()"],
]
# positions that see many sibling classes and None: more union members than RewriteLargeUnion's default maximum
WIDE_GROUPS = [
    ["X1()", "X2()", "X3()", "X4()", "X5()", "X6()", "None"], ["A()", "B()", "C()", "D()", "M()", "None"], ["E1()", "E2()", "E3()", "E4()", "E5()", "E6()", "None"],
    ["(1,)", "(1, 2)", "(1, 2, 3)", "()", "('a',)", "('a', 'b')", "None"],
    ["(1,)", "(1, 2)", "(1, 2, 3)", "('a',)", "('a', 'b')", "('a', 'b', 'c')", "(1.5,)"], ["A()", "B()", "C()", "D()", "M()", "1"], ["X1()", "X2()", "X3()", "X4()", "X5()", "R1()"],
]
POOL = [e for e in gv.BASIS if "make_gen" not in e and "lambda" not in e]


class Param:
    def __init__(self, name, kind, default=None, ann=None, vals=None):
        self.name, self.kind, self.default, self.ann, self.vals = name, kind, default, ann, vals or []

    def render(self):
        s = self.name
        if self.kind == "varargs":
            s = "*" + s
        elif self.kind == "varkw":
            s = "**" + s
        if self.ann:
            s += ": " + self.ann
        if self.default is not None:
            s += (" = " if self.ann else "=") + self.default
        return s


# consecutive yields of ONE call: a parametrised generic followed by a value of its parameter's type; values of one Python class whose
# traced types differ; dicts with equal top-level keys that differ only inside a nested dict
YIELD_SEQS = [
    ["[1, 2]", "1"], ["(1, 'a')", "'a'"], ["{3}", "3"], ["A", "A()"], ["{'a': 1}", "1"], ["[[1]]", "[1]"],
    ["[1]", "['a']"], ["('x', 0)", "(None, 2)"], ["A", "B"], ["{1: 2}", "{'s': None}"], ["{1}", "{'s'}"], ["[A()]", "[B()]", "[1]"],
    ["{'a': {'x': 1}, 'b': 1}", "{'a': {'y': 's'}, 'b': 2}"], ["{'a': [{'x': 1}], 'b': 1}", "{'a': [{'y': 1}], 'b': 1}"],
    ["{'a': {'x': {'p': 1}}}", "{'a': {'x': {'q': 1}}}"], ["1", "1", "'s'", "1"],
]


class FuncSpec:
    def __init__(self, idx, name, cls_path, kind, flavor):
        self.idx, self.name, self.cls_path, self.kind, self.flavor = idx, name, cls_path, kind, flavor
        self.params = []
        self.ret_ann = None
        self.ret_vals = []
        self.yield_vals = []
        self.exit = "return"  # return | none | raise | mixed
        self.subdeco = False  # decorate through a subclass of classmethod / staticmethod / property
        self.wrapped = False  # behind a functools.wraps wrapper written with a plain def
        self.single_yield = False  # one yield statement cycling through the values: calls with equal arguments yield different types
        self.yield_seq = None  # fixed consecutive yields of one call (YIELD_SEQS)
        self.delegate = False  # the fixed yields come from a sub-iterator through `yield from`

    @property
    def qual(self):
        return ".".join(self.cls_path + [self.name])

    def named(self):
        return [p for p in self.params if p.kind in ("posonly", "normal", "kwonly")]

    def signature_text(self):
        parts = []
        if self.kind in ("instance", "property"):
            parts.append("self")
        elif self.kind == "class":
            parts.append("cls")
        pos = [p for p in self.params if p.kind in ("posonly", "normal")]
        npo = sum(1 for p in pos if p.kind == "posonly")
        for i, p in enumerate(pos):
            parts.append(p.render())
            if npo and i == npo - 1:
                parts.append("/")
        va = [p for p in self.params if p.kind == "varargs"]
        ko = [p for p in self.params if p.kind == "kwonly"]
        if va:
            parts.append(va[0].render())
        elif ko:
            parts.append("*")
        parts += [p.render() for p in ko]
        parts += [p.render() for p in self.params if p.kind == "varkw"]
        if self.kind in ("instance", "property", "class") and npo and parts[1:2] == []:
            pass
        return ", ".join(parts)

    def render(self, indent=""):
        lines = []
        if self.kind == "class":
            lines.append("@cmeth2" if self.subdeco else "@classmethod")
        elif self.kind == "static":
            lines.append("@smeth2" if self.subdeco else "@staticmethod")
        elif self.kind == "property":
            lines.append("@lazyprop" if self.subdeco else "@property")
        elif self.wrapped:
            lines.append("@wraps_deco")
        ret = f" -> {self.ret_ann}" if self.ret_ann else ""
        head = ("async def " if self.flavor == "coro" else "def ") + f"{self.name}({self.signature_text()}){ret}:"
        lines.append(head)
        body = []
        for y in ([self.yield_vals] if self.yield_vals else []):
            body.append(f"yield pick({self.idx * 10 + 1}, [{', '.join(y)}])")
            if len(y) > 1 and not self.single_yield:
                body.append(f"yield pick({self.idx * 10 + 2}, [{', '.join(reversed(y))}])")
        if self.yield_seq and self.delegate:
            body.append(f"yield from [{', '.join(self.yield_seq)}]")
        elif self.yield_seq:
            body += [f"yield {e}" for e in self.yield_seq]
        if self.exit == "raise":
            body.append("raise Err('x')")
        elif self.exit == "mixed":
            body.append(f"if pick({self.idx * 10 + 3}, [0, 1]):")
            body.append("    raise Err('x')")
        if self.exit in ("return", "mixed") and self.ret_vals:
            body.append(f"return pick({self.idx * 10}, [{', '.join(self.ret_vals)}])")
        if not body:
            body.append("pass")
        lines += ["    " + b for b in body]
        return [indent + ln for ln in lines]


def prefix_keys(expr, prefix):
    return re.sub(r"'([a-z])':", lambda m: f"'{prefix}{m.group(1)}':", expr)


class Mod:
    def __init__(self, rng, name, opts=None):
        self.rng, self.name, self.opts = rng, name, opts or {}
        self.funcs = []
        self.classes = {}  # path tuple -> list of FuncSpec
        self.source = None

    def gen_params(self, f, unique):
        rng = self.rng
        pat = self.opts.get("pattern")
        if pat is None:
            pat = [rng.random() < 0.3, rng.random() < 0.75, rng.random() < 0.3, rng.random() < 0.35, rng.random() < 0.3]
        npo = rng.choice([1, 2]) if pat[0] else 0
        nn = rng.choice([1, 1, 2, 3]) if pat[1] else 0
        nko = rng.choice([1, 2]) if pat[3] else 0
        if f.kind == "property":
            npo = nn = nko = 0
            pat = [False] * 5
        long_names = rng.random() < 0.2
        stem = f"{'a_rather_long_parameter_name_' if long_names else 'p'}{f.idx}_" if unique else ("a_rather_long_parameter_name_" if long_names else "p")
        if unique and f.idx % 6 == 4:
            # parameter names that begin with the name of a module the stub imports (or of the module itself)
            stem = ["typing_", "collections_", "mypy_extensions_", self.name + "_", "vf_"][(f.idx // 6 + len(self.name)) % 5] + f"{f.idx}_"
        ndef = rng.choice([0, 0, 1, 2])
        pos = []
        for i in range(npo + nn):
            kind = "posonly" if i < npo else "normal"
            pos.append(Param(f"{stem}{i}", kind))
        for i, p in enumerate(pos):
            if i >= len(pos) - ndef:
                p.default = "DEFAULT"
        params = pos
        if pat[2] and f.kind != "property":
            params.append(Param("args", "varargs"))
        for i in range(nko):
            p = Param(f"{stem}k{i}", "kwonly")
            if rng.random() < 0.4:
                p.default = "DEFAULT"
            params.append(p)
        if pat[4] and f.kind != "property":
            params.append(Param("kw", "varkw"))
        # slots: annotation + consistent values
        ann_p = self.opts.get("annotate", 0.35)
        for p in params:
            if p.kind in ("varargs", "varkw"):
                if rng.random() < ann_p * 0.5:
                    p.ann = rng.choice(["int", "Any", "A"])
                continue
            if rng.random() < ann_p:
                s = rng.choice(SLOTS)
                p.ann, p.vals = s["ann"], list(s["vals"])
            else:
                n = rng.choice([1, 1, 2, 3]) if not self.opts.get("wide") else rng.choice([1, 2, 3, 6, 7, 8])
                if not self.opts.get("pool") and f.idx % 5 == 0 and p is params[0]:
                    p.vals = list(WIDE_GROUPS[(f.idx // 5 + sum(map(ord, self.name))) % len(WIDE_GROUPS)])  # every group, over the modules
                elif not self.opts.get("pool") and rng.random() < 0.2:
                    p.vals = list(rng.choice(VALUE_GROUPS))
                else:
                    p.vals = [prefix_keys(e, f"f{f.idx}") if unique else e for e in rng.sample(self.value_pool(), n)]
            if p.default == "DEFAULT" and p.ann and p.ann.startswith("'") and "[Optional" in p.ann.replace(" ", "").replace(",Optional", "[Optional"):
                p.default = "None"  # the default-None clause with a textual annotation whose optional part is not at the top
            if p.default == "DEFAULT":
                if rng.random() < 0.4 and (p.ann is None or p.ann.startswith("Optional") or rng.random() < 0.5):
                    p.default = "None"
                    if p.ann and not p.ann.startswith("Optional") and p.ann not in ("Any",):
                        pass  # annotated non-Optional with None default: stub must show Optional[ann]
                    if "None" not in p.vals:
                        p.vals.append("None") if p.ann is None or p.ann.startswith("Optional") else None
                else:
                    p.default = rng.choice(p.vals)
        if unique and f.kind == "module" and f.idx % 7 == 2 and params and params[0].kind in ("posonly", "normal"):
            params[0].name = ["cls", "self"][(f.idx // 7) % 2]  # a plain function whose first parameter merely has a receiver's name
        f.params = params

    def value_pool(self):
        return self.opts.get("pool") or POOL

    def build(self, nfuncs=10):
        rng = self.rng
        unique = self.opts.get("unique_names", True)
        idx = 0
        class_paths = [("K0",), ("K1",), ("K0", "In")] if self.opts.get("nested_classes", True) else [("K0",), ("K1",)]
        kinds = ["module", "module", "module", "instance", "instance", "class", "static", "property", "gen", "gen", "coro", "nested_instance"]
        for _ in range(nfuncs):
            idx += 1
            kd = rng.choice(kinds)
            flavor = "plain"
            cls_path = []
            kind = "module"
            if kd == "gen":
                flavor = "gen"
                kind = rng.choice(["module", "instance"])
            elif kd == "coro":
                flavor = "coro"
                kind = rng.choice(["module", "instance"])
            elif kd == "nested_instance":
                if not self.opts.get("nested_classes", True):
                    kd = "instance"
                kind = rng.choice(["instance", "class", "static"])
                cls_path = [rng.choice(["K0", "K1"]), "In"] if self.opts.get("nested_classes", True) else ["K0"]
                if self.opts.get("nested_classes", True) and idx % 3 == 0:
                    # three levels deep; NS / NS.Mid never get methods of their own (namespace-only enclosing classes)
                    cls_path = [["K0", "In", "Deep"], ["NS", "Mid", "Deep"], ["K1", "In", "Deep"]][(idx // 3) % 3]
            else:
                kind = kd
            if kind != "module" and not cls_path:
                cls_path = [rng.choice(["K0", "K1"])]
            prefix = {"module": "fn", "instance": "m", "class": "cm", "static": "sm", "property": "pr"}[kind]
            f = FuncSpec(idx, f"{prefix}_{'with_a_long_function_name_' if rng.random() < 0.1 else ''}{idx}", cls_path, kind, flavor)
            if unique and idx % 9 == 5:
                f.name = ["typing_", "collections_", self.name + "_"][(idx // 9) % 3] + f.name  # named like a module the stub imports
            if unique and idx % 9 == 7:
                f.name = "gr\u00f6\u00dfe_" + f.name  # identifiers beyond ASCII (PEP 3131)
            if unique and cls_path and len(cls_path) == 1 and idx % 8 == 3:
                f.cls_path = cls_path = ["Caf\u00e9"]
            self.gen_params(f, unique)
            f.subdeco = kind in ("class", "static", "property") and rng.random() < 0.2
            if self.opts.get("wrapped"):
                f.wrapped = kind in ("module", "instance") and rng.random() < 0.12
            # return / yield behaviour
            r = rng.random()
            if flavor == "gen":
                n = rng.choice([1, 2])
                f.yield_vals = [prefix_keys(e, f"y{idx}") if unique else e for e in rng.sample(self.value_pool(), n)]
                f.single_yield = idx % 2 == 0
                if not self.opts.get("pool") and idx % 3 != 2:
                    f.yield_seq = [prefix_keys(e, f"q{idx}") if unique else e for e in YIELD_SEQS[(idx // 3 + sum(map(ord, self.name))) % len(YIELD_SEQS)]]
                    f.delegate = idx % 3 == 1
                    if idx % 2:
                        f.yield_vals = []
                f.exit = rng.choice(["return", "none", "none", "raise"])
                if f.exit == "return":
                    f.ret_vals = [rng.choice(["1", "'s'", "A()", "None", "[1]"])]
                    if idx % 4 == 1:
                        # some calls return a value and others return None (bare return): the third argument of Generator is Optional
                        f.ret_vals = [["1", "None"], ["None", "A()"], ["'s'", "None", "1"]][(idx // 4) % 3]
                if rng.random() < self.opts.get("annotate", 0.35) * 0.6:
                    f.ret_ann = rng.choice(["Iterator[Any]", "Generator[Any, None, None]"]) if f.exit != "return" else "Generator[Any, None, Any]"
            else:
                f.exit = "return" if r < 0.7 else ("none" if r < 0.8 else ("raise" if r < 0.88 else "mixed"))
            if f.exit in ("return", "mixed") and not f.ret_vals:
                if rng.random() < self.opts.get("annotate", 0.35) and flavor in ("plain", "coro"):
                    s = rng.choice(SLOTS)
                    f.ret_ann, f.ret_vals = s["ann"], list(s["vals"])
                else:
                    n = rng.choice([1, 1, 2])
                    f.ret_vals = [prefix_keys(e, f"r{idx}") if unique else e for e in rng.sample(self.value_pool(), n)]
                    if not self.opts.get("pool") and idx % 5 == 1 and flavor == "plain":
                        f.ret_vals = list(WIDE_GROUPS[(idx // 5 + sum(map(ord, self.name)) + 3) % len(WIDE_GROUPS)])
            elif f.exit in ("none", "raise") and flavor == "plain" and rng.random() < 0.15:
                f.ret_ann = "None" if f.exit == "none" else rng.choice(["int", "None"])
            self.funcs.append(f)
            self.classes.setdefault(tuple(cls_path), []).append(f)
        if unique and self.opts.get("kwonly_pair", True) and not self.opts.get("pool"):
            # two functions that differ ONLY in the order of their keyword-only parameters (equal as inspect.Signature objects)
            for nm, order in (("kwo_ab", ("a", "b")), ("kwo_ba", ("b", "a"))):
                idx += 1
                f = FuncSpec(idx, nm, [], "module", "plain")
                kw = {"a": Param("a", "kwonly", default="None", vals=["None", "'s'"]), "b": Param("b", "kwonly", default="0", vals=["0", "1"])}
                f.params = [Param("x", "normal", vals=["1"])] + [kw[n] for n in order]
                f.ret_vals = ["1"]
                self.funcs.append(f)
                self.classes.setdefault((), []).append(f)
        self.render()
        return self

    def render(self):
        out = [HEADER]
        for f in self.classes.get((), []):
            out += f.render() + ["", ""]
        paths = sorted(p for p in self.classes if p)
        tops = sorted({p[0] for p in paths})

        def emit(path, indent):
            out.append(f"{indent}class {path[-1]}:")
            members = self.classes.get(path, [])
            kids = sorted({p[:len(path) + 1] for p in paths if len(p) > len(path) and p[:len(path)] == path})
            if not members and not kids:
                out.append(f"{indent}    pass")
            for f in members:
                out.extend(f.render(indent + "    ") + [""])
            if not members and kids:
                out.append(f"{indent}    LABEL = {path[-1]!r}  # a class that is only a namespace for nested classes")
                out.append("")
            for kpath in kids:
                emit(kpath, indent + "    ")

        for top in tops:
            emit((top,), "")
            out += ["", ""]
        self.source = "\n".join(out) + "\n"

    # -------------------------------------------------------------------------------------------
    def call_plan(self, rng, subset=None, ncalls=(1, 3)):
        """[(FuncSpec, [positional exprs], {kw: expr})] - expressions evaluated by the driver in the target's namespace."""
        plan = []
        for f in self.funcs:
            if subset is not None and f.qual not in subset:
                continue
            wide = max([len(p.vals) for p in f.params if len(p.vals) > 4] + [len(f.ret_vals) if len(f.ret_vals) > 4 else 0])
            for ci in range(max(rng.randint(*ncalls), wide)):
                args, kwargs = [], {}
                kwmode = False
                for p in [p for p in f.params if p.kind in ("posonly", "normal")]:
                    skip = p.default is not None and rng.random() < 0.4 and len(p.vals) <= 4
                    if skip:
                        kwmode = True
                        continue
                    v = rng.choice(p.vals) if len(p.vals) <= 4 else p.vals[ci % len(p.vals)]  # wide positions see every value
                    if kwmode:
                        if p.kind == "posonly":
                            continue
                        kwargs[p.name] = v
                    elif p.kind == "normal" and rng.random() < 0.25:
                        kwmode = True
                        kwargs[p.name] = v
                    else:
                        args.append(v)
                if any(p.kind == "varargs" for p in f.params) and not kwmode:
                    args += [rng.choice(["1", "'x'", "A()"]) for _ in range(rng.choice([0, 1, 2]))]
                for p in [p for p in f.params if p.kind == "kwonly"]:
                    if p.default is not None and rng.random() < 0.4:
                        continue
                    kwargs[p.name] = rng.choice(p.vals)
                if any(p.kind == "varkw" for p in f.params):
                    for j in range(rng.choice([0, 1, 2])):
                        kwargs[f"extra{j}"] = rng.choice(["1", "'x'"])
                plan.append((f, args, kwargs))
        return plan

    def access(self, f):
        """Expression (in the target namespace) for the callable."""
        if f.kind == "module":
            return f.name
        owner = ".".join(f.cls_path)
        if f.kind in ("class", "static"):
            return f"{owner}.{f.name}"
        return f"{owner}().{f.name}"
