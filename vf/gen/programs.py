"""Program generator.  DESIGN 4.3.

build(rng, name, opts) -> dict(source=<program module text>, labels={co_qualname: 'must'|'may'},
                               entries=[...driver steps...])
The program module is the only file the code filter admits; the driver (vf.mon.driver) interprets
`entries` from outside.  Every argument / return / yield site uses an instance of a marker class
unique to that site unless opts['values'] (value-grammar stratum)."""
import random

CONSTS = ["7", "'lit'", "None", "(1, 2)", "2 + 3", "", "True", "-1", "'a' 'b'", "()", "3.5"]


class Sig:
    def __init__(self, rng, receiver=None, simple=False):
        self.receiver = receiver
        if simple:
            self.posonly, self.normal, self.varargs, self.kwonly, self.varkw = 0, rng.choice([0, 1, 2]), False, 0, False
        else:
            self.posonly = rng.choice([0, 0, 0, 1, 2])
            self.normal = rng.choice([0, 1, 1, 2, 3])
            self.varargs = rng.random() < 0.3
            self.kwonly = rng.choice([0, 0, 1, 2])
            self.varkw = rng.random() < 0.25
        npos = self.posonly + self.normal
        self.ndefault = rng.choice([0, 0, 1, 2]) if npos else 0
        self.ndefault = min(self.ndefault, npos)
        self.kwdefault = [rng.random() < 0.4 for _ in range(self.kwonly)]

    def pos_names(self):
        return [f"p{i}" for i in range(self.posonly)] + [f"n{i}" for i in range(self.normal)]

    def names(self):
        return self.pos_names() + [f"k{i}" for i in range(self.kwonly)]

    def render(self, g):
        parts = [self.receiver] if self.receiver else []
        pos = self.pos_names()
        first_def = len(pos) - self.ndefault
        for i, n in enumerate(pos):
            parts.append(n + (f"={g.value()}" if i >= first_def else ""))
            if i == self.posonly - 1:
                parts.append("/")
        if self.varargs:
            parts.append("*args")
        elif self.kwonly:
            parts.append("*")
        for i in range(self.kwonly):
            parts.append(f"k{i}" + (f"={g.value()}" if self.kwdefault[i] else ""))
        if self.varkw:
            parts.append("**kw")
        return ", ".join(parts)

    def call_args(self, g, rng):
        pos = self.pos_names()
        first_def = len(pos) - self.ndefault
        out = []
        kwmode = False
        for i, n in enumerate(pos):
            optional = i >= first_def
            is_posonly = i < self.posonly
            if optional and rng.random() < 0.5:
                kwmode = True
                continue
            if kwmode:
                if is_posonly:
                    continue  # cannot be supplied any more (has a default, or an earlier one was skipped which implies defaults)
                out.append(f"{n}={g.value()}")
            elif not is_posonly and rng.random() < 0.3:
                kwmode = True
                out.append(f"{n}={g.value()}")
            else:
                out.append(g.value())
        if self.varargs and not kwmode:
            for _ in range(rng.choice([0, 0, 1, 2])):
                out.append(g.value())
        for i in range(self.kwonly):
            if self.kwdefault[i] and rng.random() < 0.5:
                continue
            out.append(f"k{i}={g.value()}")
        if self.varkw:
            for j in range(rng.choice([0, 1, 2])):
                out.append(f"x{j}={g.value()}")
        return ", ".join(out)


class Fn:
    def __init__(self, idx, kind, flavor, name, qual, label, sig, cls=None, access=None):
        self.idx, self.kind, self.flavor, self.name, self.qual, self.label = idx, kind, flavor, name, qual, label
        self.sig, self.cls, self.access = sig, cls, access
        self.lines = []

    def call_expr(self, g, rng):
        """Expression that calls it (or creates the generator / coroutine object)."""
        if self.kind in ("method", "genmethod", "property", "override", "inherited"):
            inst = g.ctor(self.cls)
            if self.kind == "property":
                return f"{inst}.{self.name}"
            return f"{inst}.{self.name}({self.sig.call_args(g, rng)})"
        return f"{self.access}({self.sig.call_args(g, rng)})"


class Gen:
    def __init__(self, rng, name, opts=None):
        self.rng = rng
        self.name = name
        self.opts = opts or {}
        self.nv = 0
        self.fns = []
        self.markers = []
        self._inherited = set()
        self._overridden = set()
        self.values = self.opts.get("values")  # list of value-grammar expressions, or None

    def value(self):
        if self.values and self.rng.random() < 0.8:
            return self.rng.choice(self.values)
        self.nv += 1
        self.markers.append(self.nv)
        return f"V{self.nv}()"

    # -------------------------------------------------------------------------------------------
    def body(self, fn, callees):
        rng = self.rng
        lines = []
        flavor = fn.flavor
        nact = rng.choice([0, 1, 1, 2, 3]) + (2 if flavor != "plain" else 0)
        params = fn.sig.names()
        yielded = False
        for _ in range(nact):
            r = rng.random()
            if flavor == "gen" and r < 0.12:
                # consecutive yields of one call: a generic then a value of its parameter's type; values of one class whose types differ;
                # dicts that differ only inside a nested dict
                b, c = self.value(), self.value()
                lines.extend("yield " + e for e in rng.choice([
                    [f"[{b}]", b], [f"({b}, {c})", c], [f"type({b})", b], [f"[[{b}]]", f"[{b}]"], [f"{{'a': {b}}}", b],
                    [f"[{b}]", f"[{c}]"], [f"({b}, None)", f"(None, {c})"], [f"type({b})", f"type({c})"], [f"{{1: {b}}}", f"{{1: {c}}}"],
                    [f"{{'a': {{'x': {b}}}, 'b': 1}}", f"{{'a': {{'y': {b}}}, 'b': 1}}"], [f"{{'a': [{{'x': {b}}}]}}", f"{{'a': [{{'y': {c}}}]}}"],
                    [b, b, c, b],
                ]))
                yielded = True
            elif flavor == "gen" and r < 0.45:
                ye = rng.choice([self.value(), self.value(), "None", params[0] if params else self.value()])
                y = f"yield {ye}" if rng.random() < 0.7 else f"_s = yield {ye}"
                if rng.random() < 0.15:
                    # the same yield instruction executed several times, exceptions thrown in are handled
                    lines.extend([f"for _i in range({rng.choice([2, 3])}):", "    try:", "        " + y, "    except Err:", "        pass"])
                elif rng.random() < 0.25:
                    lines.extend(["try:", "    " + y, "except Err:", "    pass"])
                else:
                    lines.append(y)
                yielded = True
            elif flavor == "coro" and r < 0.4:
                lines.append("await Suspend()")
            elif r < 0.55 and params:
                lines.append(f"{rng.choice(params)} = {self.value()}")
            elif callees:
                c = rng.choice(callees)
                if c.flavor == "gen":
                    how = rng.choice(["for", "list", "yf"] if flavor == "gen" else ["for", "list"])
                    ce = c.call_expr(self, rng)
                    if how == "for":
                        stmt = [f"for _x in {ce}:", "    pass"]
                    elif how == "list":
                        stmt = [f"_l = list({ce})"]
                    else:
                        stmt = [f"_r = yield from {ce}"]
                        yielded = True
                elif c.flavor == "coro":
                    if flavor != "coro":
                        continue
                    stmt = [f"_r = await {c.call_expr(self, rng)}"]
                else:
                    stmt = [f"_r = {c.call_expr(self, rng)}"]
                if rng.random() < 0.45:
                    stmt = ["try:"] + ["    " + s for s in stmt] + ["except Err:", "    pass"]
                lines.extend(stmt)
        if flavor == "gen" and not yielded:
            lines.insert(0, f"yield {self.value()}")
        ex = rng.choice(["const", "const", "expr", "expr", "fall", "raise"] if fn.kind != "init" else ["fall"] * 9 + ["raise"])
        if ex == "const":
            c = rng.choice(CONSTS)
            lines.append(f"return {c}".rstrip())
        elif ex == "expr":
            lines.append("return " + rng.choice([self.value(), self.value(), params[0] if params else self.value(), f"[{self.value()}]"]))
        elif ex == "raise":
            lines.append("raise Err('e')")
        if not lines:
            lines.append("pass")
        return lines

    # -------------------------------------------------------------------------------------------
    def build(self, nfuncs=12):
        rng = self.rng
        out = ["import functools", "", "", "class Err(Exception):", "    pass", "", "", "class Meta(type):", "    pass", "", "",
               "class Suspend:", "    def __await__(self):", "        yield", "", "",
               "def deco(f):", "    @functools.wraps(f)", "    def wrapper(*a, **kw):", "        return f(*a, **kw)", "    return wrapper", "", "",
               "def _sink(x):", "    return None", "", ""]
        if self.values:
            out[:0] = ["from collections import defaultdict, deque, OrderedDict", "from vf.fixtures.hier import *  # noqa", "NoneType = type(None)"]
        labels = {"Suspend.__await__": "must", "deco": "must", "deco.<locals>.wrapper": "may"}
        ncls = rng.choice([1, 2, 3])
        classes = {}  # name -> dict(lines, base, init)
        for c in range(ncls):
            classes[f"K{c}"] = {"members": [], "base": None, "init": None, "meta": rng.random() < 0.4}
        if rng.random() < 0.7:
            classes["S0"] = {"members": [], "base": "K0", "init": None}
        module_funcs = []
        idx = 0

        def ctor(cname):
            init = classes[cname]["init"] or (classes[classes[cname]["base"]]["init"] if classes[cname]["base"] else None)
            return f"{cname}({init.sig.call_args(self, rng)})" if init else f"{cname}()"

        self.ctor = ctor
        for cname in list(classes):
            if rng.random() < 0.4:
                idx += 1
                sig = Sig(rng, "self", True)
                fn = Fn(idx, "init", "plain", "__init__", f"{cname}.__init__", "must", sig, cls=cname)
                classes[cname]["init"] = fn
                classes[cname]["members"].append([f"def __init__({sig.render(self)}):"] + ["    " + line for line in self.body(fn, [])])
                labels[fn.qual] = "must"
        kinds = ["func", "func", "func", "method", "method", "classmethod", "staticmethod", "property", "wrapped", "recursive",
                 "closure", "nested_method", "nested_static", "override", "inherited", "genfunc", "genfunc", "genmethod", "coro", "coro",
                 "cyclic", "mutret", "selfrec", "mutpass"]
        if self.opts.get("no_coro"):
            kinds = [k for k in kinds if k != "coro"]
        plan = [rng.choice(kinds) for _ in range(nfuncs)]
        for must_have in self.opts.get("ensure", ()):
            plan[rng.randrange(len(plan))] = must_have
        for kind in plan:
            idx += 1
            callees = [f for f in self.fns if f.kind != "init"]
            simple = rng.random() < 0.3
            if kind in ("cyclic", "mutret", "selfrec", "mutpass"):
                name = f"f{idx}"
                sig = Sig(rng, simple=True)
                sig.normal, sig.ndefault = 1, 0
                if kind == "cyclic":
                    # returns / passes on a list that contains itself: collecting its type fails, so no trace is
                    # due for these completions - but nothing of the call may stay behind in the tracer either
                    fn = Fn(idx, kind, "plain", name, name, "may", sig, access=name)
                    module_funcs.append([f"def {name}(n0):", f"    _loc = {self.value()}", "    _l = [n0]", "    _l.append(_l)"]
                                        + (["    _sink(n0)", "    _sink(_l)", "    _sink(n0)"] if rng.random() < 0.5 else []) + ["    return _l"])
                    # _sink is an ordinary module function: the calls around the one whose argument cannot be typed must be logged
                    labels["_sink"] = "must"
                elif kind == "mutpass":
                    # the caller widens a container it received, in place, and hands the very same object on to another function:
                    # the callee's argument type is the type of the container as it is when the callee starts
                    fn = Fn(idx, kind, "plain", name, name, "must", sig, access=name)
                    recv = f"{name}_recv"
                    v0, v1 = self.value(), self.value()
                    how = rng.choice(["list", "dict", "set", "nested"])
                    if how == "list":
                        body, start = [f"    n0.append({v1})"], f"[{v0}]"
                    elif how == "dict":
                        body, start = [f"    n0[2] = {v1}"], f"{{1: {v0}}}"
                    elif how == "set":
                        body, start = [f"    n0.add({v1})"], f"{{{v0}}}"
                    else:
                        body, start = [f"    n0[0].append({v1})"], f"[[{v0}]]"
                    module_funcs.append([f"def {recv}(c0):", "    return len(c0)"])
                    module_funcs.append([f"def {name}(n0):"] + body + [f"    return {recv}(n0)"])
                    labels[recv] = "must"
                    fn.call_expr = (lambda g, r, name=name, start=start: f"{name}({start})")
                elif kind == "mutret":
                    # the returned object is one of the arguments, changed in place during the call
                    fn = Fn(idx, kind, "plain", name, name, "must", sig, access=name)
                    how = rng.choice(["list", "dict", "set"])
                    if how == "list":
                        body, empty = [f"    n0.append({self.value()})"], "[]"
                    elif how == "dict":
                        body, empty = [f"    n0[1] = {self.value()}"], "{}"
                    else:
                        body, empty = ["    n0.add(1)"], "set()"
                    module_funcs.append([f"def {name}(n0):"] + body + ["    return n0"])
                    fn.call_expr = (lambda g, r, name=name, empty=empty: f"{name}({empty})")
                else:
                    # a recursive local function kept only on an instance: at its calls it is a local of no caller,
                    # only its own frame refers to it (through the closure cell it recurses by)
                    cn = f"H{idx}"
                    fn = Fn(idx, kind, "plain", "go", f"{cn}.go", "must", sig, access=name)
                    module_funcs.append([f"class {cn}:", "    def setup(self):", "        def depth(n, a):", "            if n > 0:",
                                         f"                return depth(n - 1, {self.value()})", f"            return {self.value()}",
                                         "        self._cb = depth", "", "    def go(self, n0):", f"        return self._cb({rng.choice([0, 1, 2])}, n0)", "", "",
                                         f"def {name}(n0):", f"    h = {cn}()", "    h.setup()", "    return h.go(n0)"])
                    labels[f"{cn}.setup"] = labels[f"{cn}.go"] = labels[f"{cn}.setup.<locals>.depth"] = "must"
                    labels[name] = "must"
                    fn.qual = name
                labels.setdefault(fn.qual, fn.label)
                self.fns.append(fn)
                continue
            if kind in ("func", "wrapped", "recursive", "genfunc", "coro", "closure"):
                flavor = {"genfunc": "gen", "coro": "coro"}.get(kind, "plain")
                name = f"f{idx}"
                sig = Sig(rng, simple=simple)
                if kind == "recursive":
                    sig.posonly, sig.normal, sig.varargs = 0, max(1, sig.normal), False
                    sig.ndefault = 0
                fn = Fn(idx, kind, flavor, name, name, "must", sig, access=name)
                body = self.body(fn, callees)
                head = ("async def " if flavor == "coro" else "def ") + f"{name}({sig.render(self)}):"
                if kind == "wrapped":
                    module_funcs.append(["@deco", head] + ["    " + line for line in body])
                elif kind == "recursive":
                    fn.recursive = True
                    head = f"def {name}(depth, {sig.render(self)}):"
                    rec = f"{name}(depth - 1, {sig.call_args(self, rng)})"
                    module_funcs.append([head, "    if depth > 0:", f"        _r = {rec}"] + ["    " + line for line in body])
                    fn.call_expr = (lambda g, r, fn=fn, sig=sig: f"{fn.name}({r.choice([0, 1, 2, 3])}, {sig.call_args(g, r)})")
                elif kind == "closure":
                    inner_sig = Sig(rng, simple=True)
                    inner = Fn(idx, "inner", "plain", "inner", f"{name}.<locals>.inner", "may", inner_sig)
                    ibody = self.body(inner, callees)
                    if fn.sig.names():
                        ibody.insert(0, f"_c = {fn.sig.names()[0]}")  # closes over an argument (cell variable)
                    lines = [head, f"    def inner({inner_sig.render(self)}):"] + ["        " + line for line in ibody]
                    lines.append(f"    _i = inner({inner_sig.call_args(self, rng)})")
                    lines += ["    " + line for line in body]
                    module_funcs.append(lines)
                    labels[inner.qual] = "may"
                else:
                    module_funcs.append([head] + ["    " + line for line in body])
                labels[fn.qual] = "must"
                self.fns.append(fn)
                continue
            # class members
            cname = rng.choice([c for c in classes if c.startswith("K")])
            if kind in ("override", "inherited") and "S0" not in classes:
                kind = "method"
            if kind in ("method", "genmethod"):
                flavor = "gen" if kind == "genmethod" else "plain"
                name = f"m{idx}"
                sig = Sig(rng, "self", simple)
                fn = Fn(idx, kind, flavor, name, f"{cname}.{name}", "must", sig, cls=cname)
                lines = [f"def {name}({sig.render(self)}):"] + ["    " + line for line in self.body(fn, callees)]
                classes[cname]["members"].append(lines)
            elif kind == "classmethod":
                name = f"cm{idx}"
                sig = Sig(rng, "cls", simple)
                fn = Fn(idx, kind, "plain", name, f"{cname}.{name}", "must", sig, cls=cname, access=f"{cname}.{name}")
                classes[cname]["members"].append(["@classmethod", f"def {name}({sig.render(self)}):"] + ["    " + line for line in self.body(fn, callees)])
            elif kind == "staticmethod":
                name = f"sm{idx}"
                sig = Sig(rng, None, simple)
                fn = Fn(idx, kind, "plain", name, f"{cname}.{name}", "must", sig, cls=cname, access=f"{cname}.{name}")
                classes[cname]["members"].append(["@staticmethod", f"def {name}({sig.render(self)}):"] + ["    " + line for line in self.body(fn, callees)])
            elif kind == "property":
                name = f"pr{idx}"
                sig = Sig(rng, "self", True)
                sig.normal = sig.ndefault = 0
                fn = Fn(idx, kind, "plain", name, f"{cname}.{name}", "must", sig, cls=cname)
                classes[cname]["members"].append(["@property", f"def {name}(self):"] + ["    " + line for line in self.body(fn, callees)])
            elif kind in ("nested_method", "nested_static"):
                name = f"nm{idx}" if kind == "nested_method" else f"ns{idx}"
                recv = "self" if kind == "nested_method" else None
                sig = Sig(rng, recv, simple)
                label = "must" if kind == "nested_method" else "may"
                fn = Fn(idx, kind, "plain", name, f"{cname}.N.{name}", label, sig, cls=cname,
                        access=f"{cname}.N().{name}" if kind == "nested_method" else f"{cname}.N.{name}")
                lines = (["@staticmethod"] if kind == "nested_static" else []) + [f"def {name}({sig.render(self)}):"] + ["    " + line for line in self.body(fn, callees)]
                classes[cname].setdefault("nested", []).append(lines)
            elif kind == "override":
                base_methods = [f for f in self.fns if f.kind == "method" and f.cls == "K0"]
                if not base_methods:
                    name = f"m{idx}"
                    sig = Sig(rng, "self", simple)
                    fn = Fn(idx, "method", "plain", name, f"K0.{name}", "must", sig, cls="K0")
                    classes["K0"]["members"].append([f"def {name}({sig.render(self)}):"] + ["    " + line for line in self.body(fn, callees)])
                    labels[fn.qual] = "must"
                    self.fns.append(fn)
                    base_methods = [fn]
                    idx += 1
                base_methods = [f for f in base_methods if f.name not in self._inherited and f.name not in self._overridden]
                if not base_methods:
                    continue
                b = rng.choice(base_methods)
                self._overridden.add(b.name)
                sig = b.sig
                fn = Fn(idx, "override", "plain", b.name, f"S0.{b.name}", "must", sig, cls="S0")
                body = [f"_b = super().{b.name}({sig.call_args(self, rng)})"] + self.body(fn, callees)
                classes["S0"]["members"].append([f"def {b.name}({sig.render(self)}):"] + ["    " + line for line in body])
            elif kind == "inherited":
                base_methods = [f for f in self.fns if f.kind == "method" and f.cls == "K0"]
                if not base_methods:
                    continue
                base_methods = [f for f in base_methods if f.name not in self._overridden]
                if not base_methods:
                    continue
                b = rng.choice(base_methods)
                self._inherited.add(b.name)
                fn = Fn(idx, "inherited", b.flavor, b.name, b.qual, "must", b.sig, cls="S0")
                labels.setdefault(b.qual, "must")
                self.fns.append(fn)
                continue
            labels[fn.qual] = fn.label
            self.fns.append(fn)
        self._classes = classes
        self._module_funcs = module_funcs
        self._out = out
        self._labels = labels
        return self

    def finish(self):
        """Render (call after generating the driver entries, which may create more marker classes)."""
        out = list(self._out)
        for n in sorted(set(self.markers)):
            out += [f"class V{n}:", "    pass", ""]
        out.append("")
        for cname, c in self._classes.items():
            meta = "metaclass=Meta" if c.get("meta") else ""
            out.append(f"class {cname}({c['base']}):" if c["base"] else (f"class {cname}({meta}):" if meta else f"class {cname}:"))
            if not c["members"] and not c.get("nested"):
                out.append("    pass")
            for m in c["members"]:
                out += ["    " + line for line in m] + [""]
            if c.get("nested"):
                out.append("    class N:")
                for m in c["nested"]:
                    out += ["        " + line for line in m] + [""]
            out += ["", ""]
        for f in self._module_funcs:
            out += f + ["", ""]
        return "\n".join(out) + "\n"


def build(rng, name, nfuncs=12, opts=None, live=4, abandon=False):
    """-> {'source', 'labels', 'entries'}; entries are driver steps (see vf/mon/driver.py):
    ['call', expr] | ['spawn', slot, expr] | ['step', slot] | ['close'|'throw'|'drop', slot]."""
    g = Gen(rng, name, opts)
    g.build(nfuncs)
    callable_fns = [f for f in g.fns]
    entries = []
    slots = {}
    nslot = 0
    nentries = rng.choice([8, 12, 16, 24])
    for _ in range(nentries):
        f = rng.choice(callable_fns)
        # body-level calls were made against earlier functions only; the driver may call anything
        if f.flavor == "plain":
            entries.append(["call", f.call_expr(g, rng)])
        else:
            nslot += 1
            entries.append(["spawn", nslot, f.call_expr(g, rng), f.flavor])
            slots[nslot] = f.flavor
            if len(slots) >= live or rng.random() < 0.5:
                # interleave stepping of the live objects in a seeded order until all are finished
                for _ in range(rng.choice([1, 2, 3, 6])):
                    order = list(slots)
                    rng.shuffle(order)
                    for s in order:
                        entries.append(["throw", s] if abandon and rng.random() < 0.15 else ["step", s])
    # finish everything that is still live: stepped round-robin to exhaustion (main stratum) or abandoned
    for s in list(slots):
        if abandon and rng.random() < 0.6:
            op = rng.choice(["close", "throw", "throw", "drop"])
            entries.append([op, s])
            if op == "throw":
                entries.append([rng.choice(["exhaust", "exhaust", "drop", "throw"]), s])
                entries.append(["exhaust", s])
        elif opts and opts.get("threads") and rng.random() < 0.5:
            # handed to a worker thread and finished there; ordinary calls follow on the traced thread
            entries.append(["thread-exhaust", s])
            plain = [f for f in callable_fns if f.flavor == "plain"]
            for _ in range(rng.choice([2, 4, 6]) if plain else 0):
                entries.append(["call", rng.choice(plain).call_expr(g, rng)])
        else:
            entries.append(["exhaust", s])
    pre = []
    if opts and opts.get("prestart"):
        # some generators take their first steps before tracing is switched on; inside the traced block they are
        # resumed, thrown into, closed or dropped.  They were never seen from their start: nothing may be logged for them.
        gens = [f for f in callable_fns if f.flavor == "gen"]
        for j, f in enumerate(gens[:3]):
            slot = 900 + j
            pre += [["spawn", slot, f.call_expr(g, rng), "gen"], ["step", slot]]
            entries.insert(rng.randrange(len(entries) + 1), [rng.choice(["step", "throw", "close", "drop", "exhaust"]), slot])
            entries.append(["exhaust", slot])
    return {"source": g.finish(), "labels": g._labels, "entries": entries, "pre": pre, "name": name}
