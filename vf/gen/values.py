"""Value grammar.  DESIGN 4.1.  Values are constructor expressions (strings) evaluated in NS, so a
replay can rebuild them.  Generator objects are rebuilt fresh on every evaluation."""
import collections
import itertools

from vf.fixtures import hier

NS = {k: getattr(hier, k) for k in dir(hier) if not k.startswith("_")}
NS["defaultdict"] = collections.defaultdict
NS["deque"] = collections.deque
NS["OrderedDict"] = collections.OrderedDict
NS["NoneType"] = type(None)


def ev(expr):
    return eval(expr, dict(NS))  # noqa: S307 - expressions come from this module only


ATOMS = [
    "1", "2**70", "True", "'s'", "''", "1.5", "b'x'", "None",
    "A()", "B()", "C()", "D()", "M()", "Outer.Inner()", "Outer.Inner.Deep()",
    "A", "C", "int", "type", "NoneType", "Outer.Inner",
    "func", "lam", "len", "A().meth", "A.smeth", "A.cmeth", "[].append", "Handler()", "partial(func, 1)",
    "make_gen()", "raw_cmeth", "lazy_prop", "GetOnly()", "partialmethod(func, 1)", "Movie",
    "MyList([1])", "MyDict(a=1)", "MySet({1})", "MyTuple((1,))", "NT(1, 'a')", "frozenset([1])",
]

SMALL_CONTAINERS = [
    "[]", "[1]", "['a']", "[1, 'a']", "[None]", "[A(), B()]",
    "set()", "{1}", "{'a', 1}",
    "()", "(1,)", "(1, 'a')", "((),)",
    "{}", "{'a': 1}", "{'a': 'x'}", "{'a': 1, 'b': 'x'}", "{'b': 2}", "{'a': None}", "{1: 2}", "{'a': 1, 2: 3}",
    "{'a': 1, 'b': 2, 'c': 3}", "{'a': {}}", "{'a': []}",
    "defaultdict(int)", "defaultdict(int, {1: 2})", "defaultdict(list, {'a': [1]})", "defaultdict(dict, {'a': {'k': 1}})",
    "[{'a': 1}]", "[{'a': 1}, {'b': 2}]", "[{'a': 1}, {'a': 'x', 'b': 2}]", "{'a': {'b': 1}}", "{'a': {'b': 1}, 'c': {'b': 's'}}",
    "[[]]", "[[1]]", "[[], [1]]", "({'a': 1},)", "({'a': 1}, {'a': 1})", "{'k': ({'a': 1}, [])}",
    "[{}]", "[{}, {'a': 1}]", "{1: {'a': 1}}", "{('a',): 1}", "[(1, 'a'), (2, 'b')]", "[(), (1,)]",
    "{'a': A}", "{'a': func}", "{'a': make_gen()}", "[A, B]", "[int, A]", "{'d': defaultdict(int, {'x': 1})}",
    # dict shapes nested in non-list generics, one key set a strict subset of the other
    "({'a': 1, 'b': 'x'},)", "{1: {'a': 1, 'b': 'x'}}", "({'a': 1}, 1)", "({'a': 1, 'b': 'x'}, 1)", "{'k': ({'a': 1, 'b': 'x'}, [])}",
    # aliasing: one container object reachable at several places of the value
    "[[1]] * 3", "dict.fromkeys(['a', 'b'], [1])", "(lambda r: [r, r])([1, 2])", "(lambda d: {'x': d, 'y': d})({'k': 1})",
    "(lambda r: (r, [r]))(['s'])", "(lambda d: [d, {'z': d}])({'k': 's'})", "(lambda r: defaultdict(list, {'p': r, 'q': r}))([A()])",
    # aliasing next to an element of another type: the second occurrence sits in a different container with a sibling of another type
    "(lambda r: (r, [r, 3]))([1])", "(lambda d: (d, [d, 's']))({'a': 1})", "(lambda r: [[r], [r, None]])([1])", "(lambda d: {1: d, 2: [d, 1.5]})({'k': 1})",
    "(lambda r: (r, {r[0], 's'}))((1,))", "(lambda d: [d, defaultdict(int, {'p': d, 'q': 1})])({'k': 1})", "(lambda r: {'x': r, 'y': {1: r, 2: A()}})([1])",
    "(lambda r: ([r], [r], [r, 's']))([])",
    # keys that are not their own NFKC form (micro sign, ligature, fullwidth letter, decomposed accent next to the precomposed one)
    "{'\u00b5': 1}", "{'\ufb01': 1, 'fi': 'x'}", "{'\uff41': [1]}", "{'cafe\u0301': 1, 'caf\u00e9': 's'}", "[{'\u00b5s': 1}, {'\u03bcs': 's'}]",
    # string keys that cannot be written as fields of a class-syntax TypedDict
    "{'content-type': 'x'}", "{'class': 1, 'x': 2}", "{'1x': 's'}", "{'': 1}", "{'a b': 2, 'c': None}", "[{'a-b': 1}, {'a': 1}]", "{'k': {'x.y': 1}}",
    # standard-library containers the tracer treats as plain classes
    "deque([1])", "deque([{'a': 1}])", "OrderedDict(a=1)", "OrderedDict(k={'a': 1})", "frozenset([(1, 'a')])",
    # classes of user modules named like builtins
    "TimeoutError()", "[TimeoutError(), Warning()]", "{'a': KeyError_()}", "Warning",
    # str-subclass keys, falsy class objects
    "{SKey('a'): 1}", "{SKey('a'): 1, SKey('b'): 's'}", "{SKey('a'): 1, 'b': 2}", "Registry()", "Registry", "[Registry, A]",
]

BASIS = ATOMS + SMALL_CONTAINERS

# value sets that exist only in the inference space (C04/C05/C06 shared pass): same-named distinct classes
INFER_ONLY_CASES = [
    ["Dup1()", "Dup2()"], ["Dup2()", "Dup1()", "Dup1()"], ["[Dup1()]", "[Dup2()]"], ["[Dup1(), Dup2()]"], ["{'a': Dup1()}", "{'a': Dup2()}"],
    ["{1: Dup1()}", "{1: Dup2()}"], ["(Dup1(),)", "(Dup2(),)"], ["Dup1", "Dup2"], ["{'a': Dup1(), 'b': 1}", "{'a': Dup2(), 'b': 1}"],
    # large containers whose odd element comes late (beyond any inspection cut-off a tracer might be tempted to use)
    ["list(range(1200)) + ['tail']"], ["set(range(1200)) | {'s'}"], ["dict({i: i for i in range(1200)}, late='s')"], ["{**{i: i for i in range(1200)}, 5000: None}"],
    ["defaultdict(int, {**{i: i for i in range(1200)}, 'k': 1.5})"], ["[list(range(1100)) + [None]]", "[1]"], ["{'a': list(range(1500)) + [A()]}"],
    ["[0] * 5000 + [[]]"], ["tuple(range(40)) + ('s',)"], ["[{'a': 1}] * 1100 + [{'b': 's'}]"],
    ["[{'a': Dup1()}, {'a': Dup2()}]"], ["{'k': [Dup1()]}", "{'k': [Dup2()]}"], ["Dup1()", "Dup2()", "1"], ["defaultdict(int, {'a': Dup1()})", "defaultdict(int, {'a': Dup2()})"],
]


def multisets(max_size, basis=None):
    basis = basis or BASIS
    for n in range(1, max_size + 1):
        yield from itertools.combinations_with_replacement(basis, n)


def dict_family_members(keys=("a", "b", "c"), vals=("1", "'x'")):
    out = ["{}"]
    for r in range(1, len(keys) + 1):
        for ks in itertools.combinations(keys, r):
            for vs in itertools.product(vals, repeat=r):
                out.append("{" + ", ".join(f"'{k}': {v}" for k, v in zip(ks, vs)) + "}")
    return out


def dict_families(max_members=3):
    mem = dict_family_members()
    for n in range(1, max_members + 1):
        yield from itertools.combinations(mem, n)


KEYS = ["a", "b", "c", "d", "e", "f", "g", "h", "i", "j", "k", "l", "m", "module", "qualname", "elem_types", "\u00b5", "\ufb01", "fi", "\uff41", "content-type", "class", "1x"]


def gen_dict(rng, depth, nkeys=None, keymode=None):
    nkeys = rng.choice([0, 1, 1, 2, 2, 3, 3, 4, 5, 9, 10, 11, 12]) if nkeys is None else nkeys
    keymode = keymode or rng.choice(["str"] * 6 + ["nonstr", "mixed"])
    ks = rng.sample(KEYS, min(nkeys, len(KEYS)))
    items = []
    for i, k in enumerate(ks):
        if keymode == "str" or (keymode == "mixed" and i % 2 == 0):
            ke = repr(k)
        else:
            ke = rng.choice([str(i), f"({i},)", f"{i}.5", "None" if i == 0 else str(i + 100)])
        items.append(f"{ke}: {gen_value(rng, depth + 1)}")
    return "{" + ", ".join(items) + "}"


def gen_value(rng, depth=0, maxdepth=4):
    """Random value expression, nesting to maxdepth."""
    if depth >= maxdepth or rng.random() < 0.35:
        return rng.choice(ATOMS)
    kind = rng.choice(["list", "list", "set", "tuple", "dict", "dict", "dict", "defaultdict", "basis", "lod"])
    n = rng.choice([0, 1, 1, 2, 2, 3])
    if kind == "list":
        return "[" + ", ".join(gen_value(rng, depth + 1, maxdepth) for _ in range(n)) + "]"
    if kind == "set":
        hashable = [a for a in ATOMS if a not in ("MyList([1])", "MyDict(a=1)", "MySet({1})")]
        if n == 0:
            return "set()"
        return "{" + ", ".join(rng.choice(hashable) for _ in range(n)) + "}"
    if kind == "tuple":
        if n == 0:
            return "()"
        return "(" + ", ".join(gen_value(rng, depth + 1, maxdepth) for _ in range(n)) + ",)"
    if kind == "dict":
        return gen_dict(rng, depth)
    if kind == "defaultdict":
        return "defaultdict(int, " + gen_dict(rng, depth, nkeys=rng.choice([0, 1, 2])) + ")"
    if kind == "lod":  # homogeneous-ish list of dicts: drives the TypedDict merge
        m = rng.choice([1, 2, 3, 4])
        keymode = rng.choice(["str", "str", "str", "mixed"])
        return "[" + ", ".join(gen_dict(rng, depth + 1, nkeys=rng.choice([0, 1, 2, 3]), keymode=keymode) for _ in range(m)) + "]"
    return rng.choice(SMALL_CONTAINERS)


def gen_small_dict(rng, keys="abcd", vals=("1", "'x'", "1.5", "None", "[1]")):
    ks = rng.sample(keys, rng.choice([1, 1, 2, 2, 3]))
    return "{" + ", ".join(f"'{k}': {rng.choice(vals)}" for k in ks) + "}"


def gen_lod(rng):
    """A list of small str-keyed dicts with differing key sets: merges to List[TD(optional ...)]."""
    return "[" + ", ".join(gen_small_dict(rng) for _ in range(rng.choice([1, 2, 2, 3]))) + "]"


WRAPS = ["({d},)", "{{1: {d}}}", "({d}, 1)", "[{d}]", "{{'w': {d}}}", "[({d},)]", "defaultdict(dict, {{'w': {d}}})"]


def gen_multiset(rng, maxn=5):
    n = rng.choice([1, 2, 2, 3, 3, 4, maxn])
    mode = rng.random()
    if mode < 0.12:  # two-level merges: lists of dicts whose element types are TypedDicts with optional keys
        return [gen_lod(rng) if rng.random() < 0.8 else "[" + gen_lod(rng) + ", " + gen_lod(rng) + "]" for _ in range(max(2, n))]
    if mode < 0.2:  # the same wrapper around dicts whose key sets are subsets of one another
        w = rng.choice(WRAPS)
        base = gen_small_dict(rng, vals=("1", "'x'"))
        items = base[1:-1].split(", ")
        out = [w.format(d=base)]
        for _ in range(max(1, n - 1)):
            sub = rng.sample(items, rng.randint(1, len(items)))
            extra = [f"'{k}': {rng.choice(['1', repr('x')])}" for k in rng.sample("efg", rng.choice([0, 0, 1]))]
            out.append(w.format(d="{" + ", ".join(sub + extra) + "}"))
        rng.shuffle(out)
        return out
    mode = (mode - 0.2) / 0.8
    if mode < 0.25:  # dicts around a size limit
        base = rng.choice([1, 2, 3, 10])
        return [gen_dict(rng, 2, nkeys=max(0, base + rng.choice([-1, 0, 0, 1])), keymode="str") for _ in range(n)]
    if mode < 0.4:
        return [gen_dict(rng, 1) for _ in range(n)]
    return [gen_value(rng) for _ in range(n)]


def value_shape(v, depth=0):
    """Structural abstraction of a live value, for distinct-shape counting."""
    t = type(v)
    if depth > 4:
        return t.__name__
    if t in (list, set, tuple):
        return t.__name__ + "[" + ",".join(sorted({value_shape(e, depth + 1) for e in v})) + "]"
    if t in (dict, collections.defaultdict):
        ks = ",".join(sorted({type(k).__name__ for k in v}))
        return f"{t.__name__}{len(v)}<{ks}>[" + ",".join(sorted({value_shape(e, depth + 1) for e in v.values()})) + "]"
    if isinstance(v, type):
        return "class"
    return t.__name__
