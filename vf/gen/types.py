"""Type grammar.  DESIGN 4.2.  Types are expression strings evaluated in NS (replayable)."""
import functools
import itertools
import typing

from vf.fixtures import hier


def _TD(req=None, opt=None):
    from monkeytype.typing import make_typed_dict

    return make_typed_dict(required_fields=req or {}, optional_fields=opt or {})


NS = {k: getattr(hier, k) for k in dir(hier) if not k.startswith("_")}
NS.update({k: getattr(typing, k) for k in ("Any", "Union", "Optional", "List", "Set", "Dict", "DefaultDict", "Tuple", "Type",
                                          "Callable", "Iterator", "Generator")})
NS["NoneType"] = type(None)
NS["TD"] = _TD


def ev(expr):
    return eval(expr, dict(NS))  # noqa: S307


ATOMS = ["int", "str", "NoneType", "A", "B", "C", "D", "M"]
MORE_ATOMS = ["bool", "float", "bytes", "TimeoutError", "Warning", "Registry", "SKey", "X1", "X2", "X3", "X4", "X5", "X6", "E1", "E2", "E3", "E4", "E5", "E6", "R1", "Outer.Inner"]
SPECIAL_LEAVES = ["Tuple[()]", "Callable", "List[Any]", "Set[Any]", "Dict[Any, Any]", "Iterator[Any]", "Type[A]", "Type[int]",
                  "DefaultDict[Any, Any]"]
HASHABLE_LEAVES = ATOMS + ["Tuple[()]", "Callable", "Type[A]", "Type[int]"]


def _is_hashable(e):
    if e in HASHABLE_LEAVES or e in MORE_ATOMS:
        return True
    return e.startswith("Tuple[") and not any(x in e for x in ("List", "Set", "Dict", "TD(", "Generator", "Iterator", "Any", "Union"))


def _union(members):
    return "Union[" + ", ".join(members) + "]"


@functools.lru_cache(maxsize=None)
def of_size(n):
    """All type expressions with exactly n nodes (unions are never direct members of unions)."""
    if n == 1:
        return tuple(ATOMS + SPECIAL_LEAVES)
    out = []
    for t in of_size(n - 1):
        out.append(f"List[{t}]")
        out.append(f"Tuple[{t}]")
        if _is_hashable(t):
            out.append(f"Set[{t}]")
        if not t.startswith("Union"):
            out.append(f"Generator[{t}, NoneType, NoneType]")
    # binary
    for a in range(1, n - 1):
        b = n - 1 - a
        for x in of_size(a):
            for y in of_size(b):
                if _is_hashable(x) and not x.startswith("Union"):
                    out.append(f"Dict[{x}, {y}]")
                    if a == 1 and b == 1:
                        out.append(f"DefaultDict[{x}, {y}]")
                out.append(f"Tuple[{x}, {y}]")
                if a <= b and x != y and not x.startswith("Union") and not y.startswith("Union") and (a < b or x < y):
                    out.append(_union([x, y]))
    # ternary unions of leaves / small terms
    if n >= 4:
        parts = [p for p in itertools.combinations_with_replacement(range(1, n - 2), 3) if sum(p) == n - 1]
        for p in parts:
            pools = [[t for t in of_size(k) if not t.startswith("Union")] for k in p]
            for combo in itertools.product(*pools):
                if len(set(combo)) == 3 and list(combo) == sorted(combo):
                    out.append(_union(list(combo)))
    if n == 2:
        out += ["Generator[int, NoneType, str]", "Generator[int, str, NoneType]", "Type[NoneType]"]
    return tuple(dict.fromkeys(out))


def enumerate_upto(n):
    for k in range(1, n + 1):
        yield from of_size(k)


# ------------------------------------------------------------------------------------------------
# sampling beyond the bound


def gen_type(rng, depth=0, maxdepth=3, hashable=False):
    if hashable:
        r = rng.random()
        if r < 0.8:
            return rng.choice(HASHABLE_LEAVES + MORE_ATOMS[:3])
        return "Tuple[" + ", ".join(gen_type(rng, depth + 1, maxdepth, True) for _ in range(rng.choice([1, 2]))) + "]"
    if depth >= maxdepth or rng.random() < 0.3:
        return rng.choice(ATOMS + MORE_ATOMS + SPECIAL_LEAVES)
    k = rng.choice(["List", "Set", "Dict", "DefaultDict", "Tuple", "Union", "Union", "Union", "Generator", "TD", "Type"])
    if k == "List":
        return f"List[{gen_type(rng, depth + 1, maxdepth)}]"
    if k == "Set":
        return f"Set[{gen_type(rng, depth + 1, maxdepth, True)}]"
    if k in ("Dict", "DefaultDict"):
        return f"{k}[{gen_type(rng, depth + 1, maxdepth, True)}, {gen_type(rng, depth + 1, maxdepth)}]"
    if k == "Tuple":
        n = rng.choice([0, 1, 2, 3])
        if n == 0:
            return "Tuple[()]"
        return "Tuple[" + ", ".join(gen_type(rng, depth + 1, maxdepth) for _ in range(n)) + "]"
    if k == "Generator":
        y = gen_type(rng, depth + 1, maxdepth)
        return rng.choice([f"Generator[{y}, NoneType, NoneType]", f"Generator[{y}, NoneType, int]", f"Iterator[{y}]"])
    if k == "Type":
        return "Type[" + rng.choice(ATOMS[3:] + ["int", "NoneType", "Outer.Inner"]) + "]"
    if k == "TD":
        return gen_td(rng, depth, maxdepth)
    return gen_union(rng, depth, maxdepth)


def gen_td(rng, depth, maxdepth):
    # field names include the words the JSON encoding itself uses as keys
    keys = rng.sample(["a", "b", "c", "d", "e", "module", "qualname", "elem_types", "is_typed_dict"], rng.choice([1, 1, 2, 3]))
    nreq = rng.randint(0, len(keys))
    req = ", ".join(f"'{k}': {gen_type(rng, depth + 1, maxdepth)}" for k in keys[:nreq])
    opt = ", ".join(f"'{k}': {gen_type(rng, depth + 1, maxdepth)}" for k in keys[nreq:])
    return "TD({" + req + "}, {" + opt + "})"


def gen_union(rng, depth=0, maxdepth=3):
    n = rng.choice([2, 2, 3, 4, 5, 6, 6, 7, 8])
    style = rng.random()
    if style < 0.2:  # plain classes with a common base / MI families
        pool = rng.choice([["A", "B", "C", "D", "M"], ["X1", "X2", "X3", "X4", "X5", "X6", "R1"], ["E1", "E2", "E3", "E4", "E5", "E6", "int", "str"],
                           ["B", "C", "D", "M", "int", "bool", "NoneType"]])
        mem = rng.sample(pool, min(n, len(pool)))
    elif style < 0.35:  # tuples of one element type
        v = rng.choice(["int", "str", "A"])
        lens = rng.sample([0, 1, 2, 3, 4, 5, 6, 7], min(n, 8))
        mem = ["Tuple[()]" if k == 0 else "Tuple[" + ", ".join([v] * k) + "]" for k in lens]
        if rng.random() < 0.3:
            mem[-1] = "Tuple[int, str]"
    elif style < 0.5:  # dicts
        kt = rng.choice(["str", "int"])
        mem = [f"Dict[{kt}, {gen_type(rng, depth + 2, maxdepth)}]" for _ in range(min(n, 4))]
        if rng.random() < 0.3:
            mem.append("Dict[bytes, int]")
        if rng.random() < 0.3:
            mem.append("Dict[Any, Any]")
    elif style < 0.7:  # empty containers next to / without siblings
        mem = rng.sample(["List[Any]", "Set[Any]", "Dict[Any, Any]", "DefaultDict[Any, Any]", "Iterator[Any]", "List[int]", "Set[str]",
                          "Dict[str, int]", "DefaultDict[str, int]", "int", "NoneType", "List[List[Any]]", "Tuple[()]", "Callable"], min(n, 6))
    else:
        mem = [gen_type(rng, depth + 1, maxdepth) for _ in range(n)]
    mem = [m for m in dict.fromkeys(mem) if not m.startswith("Union") and not m.startswith("TD(")]
    if len(mem) < 2:
        mem = ["int", "str"]
    return _union(mem)


# ------------------------------------------------------------------------------------------------
# trigger neighbourhoods: unions built around each shipped rewriter's trigger, in every member order


NEIGHBOURHOODS = {
    "tuples": ["Tuple[()]", "Tuple[int]", "Tuple[int, int]", "Tuple[str]", "Tuple[str, str]", "Tuple[int, str]", "Tuple[A]", "Tuple[B, B]", "NoneType"],
    "classes": ["A", "B", "C", "D", "M", "NoneType", "int", "X1", "X2", "R1", "Type[A]"],
    "dicts": ["Dict[str, int]", "Dict[str, str]", "Dict[int, int]", "Dict[Any, Any]", "DefaultDict[str, int]", "DefaultDict[Any, Any]",
              "Dict[str, List[Any]]", "Dict[str, List[int]]", "List[int]", "NoneType"],
    "empties": ["List[Any]", "List[int]", "Set[Any]", "Set[str]", "Dict[Any, Any]", "Dict[str, int]", "DefaultDict[Any, Any]", "DefaultDict[str, int]",
                "Iterator[Any]", "Generator[int, NoneType, NoneType]", "Tuple[()]", "Tuple[int]", "NoneType", "int",
                # containers of unions that a large-union rewriter turns into C[Any]: one rewriter's output is the next one's trigger
                "List[Union[int, str, float]]", "Set[Union[int, str, bytes]]", "Set[bool]", "Dict[str, Union[int, str, A]]"],
}
WRAPPERS = ["{u}", "List[{u}]", "Dict[str, {u}]", "Tuple[int, {u}]", "TD({{'f': {u}}}, {{}})", "Optional[List[{u}]]", "Iterator[{u}]", "DefaultDict[str, {u}]"]


def neighbourhood_exprs(rng, sampled_per_pool=150):
    """Ordered selections (Union keeps member order, and rewriters walk members in order): all of size 2 and 3 per pool,
    a seeded sample of sizes 4..7; a seeded part of them nested under every wrapper."""
    out = []
    for name, pool in NEIGHBOURHOODS.items():
        for n in (2, 3):
            for combo in itertools.permutations(pool, n):
                out.append(_union(list(combo)))
        for _ in range(sampled_per_pool):
            n = rng.choice([4, 5, 6, 6, 7])
            out.append(_union(rng.sample(pool, min(n, len(pool)))))
    nested = [w.format(u=u) for u in rng.sample(out, min(len(out), sampled_per_pool * 4)) for w in rng.sample(WRAPPERS[1:], 2)]
    return out + nested
