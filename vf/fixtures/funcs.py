"""Fixture functions of every kind for CallTrace round trips (C08)."""
import functools


def deco(f):
    @functools.wraps(f)
    def wrapper(*a, **kw):
        return f(*a, **kw)

    return wrapper


def deco2(f):
    @functools.wraps(f)
    def wrapper2(*a, **kw):
        return f(*a, **kw)

    return wrapper2


class CountCalls:
    """a class-based decorator: the decorated name is bound to an instance that exposes __wrapped__"""

    def __init__(self, f):
        functools.update_wrapper(self, f)
        self.f = f
        self.calls = 0

    def __call__(self, *a, **kw):
        self.calls += 1
        return self.f(*a, **kw)


@functools.lru_cache(maxsize=None)
def cached(a):
    return a


@CountCalls
def counted(a, b=0):
    return a


def plain(a, b=None, *args, c=1, **kw):
    return a


@deco
def wrapped(a, b):
    return a


@deco2
@deco
def wrapped_twice(a):
    return a


def gen(a):
    yield a


async def coro(a):
    return a


class K:
    def meth(self, a):
        return a

    @classmethod
    def cmeth(cls, a):
        return a

    @staticmethod
    def smeth(a):
        return a

    @property
    def prop(self):
        return 1

    @deco
    def wmeth(self, a):
        return a

    @classmethod
    @deco
    def wcmeth(cls, a):
        return a

    @staticmethod
    @deco
    def wsmeth(a):
        return a

    @classmethod
    @deco2
    @deco
    def wcmeth2(cls, a):
        return a

    @staticmethod
    @functools.lru_cache(maxsize=None)
    def cached_s(a):
        return a

    class Inner:
        def meth(self, a):
            return a

        @classmethod
        def cmeth(cls, a):
            return a

        @staticmethod
        def smeth(a):
            return a

        class Deep:
            def meth(self, a):
                return a


class Sub(K):
    def meth(self, a):
        return a


FUNCS = {
    "plain": plain,
    "wrapped": wrapped.__wrapped__,
    "wrapped_twice": wrapped_twice.__wrapped__.__wrapped__,
    "gen": gen,
    "cached": cached.__wrapped__,
    "counted": counted.__wrapped__,
    "K.cached_s": K.__dict__["cached_s"].__func__.__wrapped__,
    "coro": coro,
    "K.meth": K.meth,
    "K.cmeth": K.cmeth.__func__,
    "K.smeth": K.smeth,
    "K.prop": K.__dict__["prop"].fget,
    "K.wmeth": K.__dict__["wmeth"].__wrapped__,
    "K.wcmeth": K.__dict__["wcmeth"].__func__.__wrapped__,
    "K.wsmeth": K.__dict__["wsmeth"].__func__.__wrapped__,
    "K.wcmeth2": K.__dict__["wcmeth2"].__func__.__wrapped__.__wrapped__,
    "K.Inner.meth": K.Inner.meth,
    "K.Inner.cmeth": K.Inner.cmeth.__func__,
    "K.Inner.smeth": K.Inner.smeth,
    "K.Inner.Deep.meth": K.Inner.Deep.meth,
    "Sub.meth": Sub.meth,
}
