"""Fixture class hierarchy and callables for the value and type grammars (importable by name)."""
import collections
import collections.abc
import functools
import typing
from functools import partial, partialmethod  # noqa: F401 - callable objects that are not functions (value grammar)


class A:
    def meth(self):
        return 1

    @classmethod
    def cmeth(cls):
        return 2

    @staticmethod
    def smeth():
        return 3


class B(A):
    pass


class C(B):
    pass


class D(A):
    pass


class M(B, D):
    pass


# multiple-inheritance family with different base orders (C14: ancestor choice must not depend on order)
class R1:
    pass


class R2:
    pass


class X1(R1, R2):
    pass


class X2(R2, R1):
    pass


class X3(R1, R2):
    pass


class X4(R2, R1):
    pass


class X5(R1, R2):
    pass


class X6(R2, R1):
    pass


# a family whose only common ancestor is an abstract base class that one member names explicitly and the others
# satisfy structurally (C14: the ancestor found must not depend on which member comes first)
class AH1(collections.abc.Hashable):
    def __hash__(self):
        return 1


class AH2:
    pass


class AH3:
    pass


class AH4:
    pass


class AH5:
    pass


class AH6:
    pass


class Outer:
    class Inner:
        class Deep:
            pass


class E1:
    pass


class E2:
    pass


class E3:
    pass


class E4:
    pass


class E5:
    pass


class E6:
    pass


class TimeoutError:  # noqa: A001 - deliberately named like a builtin (a library's own exception class)
    pass


class Warning:  # noqa: A001
    pass


class KeyError_:
    pass


class SKey(str):
    """A str subclass used as a dict key (StrEnum-like)."""


class EmptyMeta(type):
    """Class objects of this metaclass are falsy (an empty registry)."""

    def __len__(cls):
        return 0


class Registry(metaclass=EmptyMeta):
    pass


class MyList(list):
    pass


class MyDict(dict):
    pass


class MySet(set):
    pass


class MyTuple(tuple):
    pass


NT = collections.namedtuple("NT", ["x", "y"])


class Handler:
    """an instance with __call__: callable, but its type is the class, not Callable"""

    def __call__(self, *a):
        return a


def func(a, b=1):
    return a


lam = lambda x: x  # noqa: E731


def zero():
    return 0


class Movie(typing.TypedDict, total=False):
    """an importable typing.TypedDict class of a user module: to the tracer a named class like any other"""

    title: str
    year: int


class GetOnly:
    """a non-data descriptor that is not callable"""

    def __get__(self, obj, objtype=None):
        return 1


# descriptor objects as they sit in a class body: they have __get__ and no __set__, and cannot be called
raw_cmeth = A.__dict__["cmeth"]
lazy_prop = functools.cached_property(func)


def genfunc():
    yield 1
    yield "a"


def make_gen():
    return genfunc()


def _make_dup():
    class Dup:
        pass

    Dup.__qualname__ = "Dup"
    return Dup


# two distinct classes with one module and qualified name (a class factory called twice, a module reloaded between two
# observations): only for the inference space (C04/C05) - they cannot be told apart by name, so they never reach stores or stubs
Dup1 = _make_dup()
Dup2 = _make_dup()
Dup = Dup2


CLASSES = [AH1, AH2, AH3, AH4, AH5, AH6, SKey, Registry, TimeoutError, Warning, A, B, C, D, M, R1, R2, X1, X2, X3, X4, X5, X6, Outer, Outer.Inner, Outer.Inner.Deep, E1, E2, E3, E4, E5, E6]
