"""A second fixture module whose classes share their NAMES with classes of vf.fixtures.hier (two modules exporting `A`, `Outer`)."""


class A:
    pass


class Outer:
    class Inner:
        pass
