"""Helper used by generated target modules (lives outside the target so it never shows up in its stub)."""
_COUNTERS = {}


def pick(key, lst):
    """Return the element of the (freshly built) candidate list for this call number (cycles)."""
    n = _COUNTERS.get(key, 0)
    _COUNTERS[key] = n + 1
    return lst[n % len(lst)]


def reset():
    _COUNTERS.clear()
