"""Fixture package; PkgLevel lives in the package itself so that stubs import both `vf.fixtures` and `vf.fixtures.hier`."""


class PkgLevel:
    pass
