"""Regenerates /verif/MANIFEST.json from the table below:  python -m vf.manifest"""
import json
import os

VERIF = os.path.dirname(os.path.dirname(os.path.abspath(__file__)))

BASELINE_OFF = (
    "cd /repo && env -u MONKEYTYPE_VERIF /venv/bin/python -m pytest -ra -q -p no:cacheprovider --timeout=900 "
    "--continue-on-collection-errors"
)

# id -> (level category, technique, level text, level note, design ref)
CHECKS = {
    "C04": (
        "exploration",
        "runtime monitoring: reference conformance oracle + structural-equality oracle over get_type/shrink_types on generated value multisets",
        "Every value of every explored multiset (exhaustive over a 90-value basis up to size 2/3, all dict families, seeded random "
        "beyond; k in {0,1,2,3,10,200}) is judged a member of the merged type by an independent conformance oracle, and 5 "
        "permutations/duplications per case are compared structurally; the same through the merge of whole traces, directly and after the "
        "store's row encoding and back. Held = held on the executions listed in the evidence.",
        "Trusts vf/oracle/rt.py + conform.py (typing.get_origin/get_args only) and CPython 3.12.1; cyclic containers excluded.",
        "6 C04",
    ),
    "C05": (
        "exploration",
        "runtime monitoring: witness-walk oracle (tightness) over the real inference results for generated value multisets",
        "The merged type of every explored multiset is walked in lock-step with the values: every union alternative, class, Any, "
        "required/optional key must be witnessed (also for the opposite observation order and for the type merged from rows decoded from the store). "
        "Held = on the explored multisets only.",
        "Trusts vf/oracle/witness.py; same value space as C04.",
        "6 C05",
    ),
    "C06": (
        "exploration",
        "runtime monitoring: structural scan of every TypedDict node in inferred/merged types, stored rows and rendered stubs against k",
        "Every anonymous TypedDict node in per-value and merged types (dicts of 0..12 keys, str/non-str/mixed, nested; k in "
        "{0,1,2,3,10}) is measured against the limit; end-to-end rows and stub classes likewise (random programs plus deterministic "
        "shapes, also for stores written under a larger limit than the stub's, under every way of choosing the rewriter); sessions of six "
        "tracing blocks in one interpreter sharing a logger / Config object while the limit changes: each logged trace against the limit of its block.",
        "The statement itself is the model (all keys str, 1 <= size <= k).",
        "6 C06",
    ),
    "C07": (
        "exploration",
        "runtime monitoring: canonical-inhabitant conformance oracle + trigger predicates over the real TypeRewriter.rewrite calls",
        "Every grammar type up to the node bound (exhaustive), unions built around each rewriter's trigger in every member order, sampled "
        "types/unions beyond and types inferred from values are fed to "
        "each shipped rewriter, the default chain stage by stage and ordered pairs through ChainedRewriter: no exception, every "
        "canonical inhabitant and real witness of the input still admitted, result structurally unchanged unless the documented "
        "trigger is present.",
        "Trusts vf/oracle/inhabit.py, triggers.py, conform.py; C[Any] read observationally (the observed empty container).",
        "6 C07",
    ),
    "C08": (
        "exploration",
        "runtime monitoring: encode/decode round trips of generated types and CallTraces judged by the structural-equality oracle",
        "Inferable types (grammar-complete to the node bound, sampled beyond, inferred from values at every k, rewritten forms) and "
        "CallTraces over fixture functions of every kind are round-tripped through type_to_json/type_from_json, CallTraceRow and "
        "SQLiteStore, after a hostile decode history (failed look-ups of name prefixes, a module created after its failed look-up) in the "
        "same interpreter; decoded objects compared structurally; encodings of independently built structurally identical types compared.",
        "Trusts vf/oracle/rt.py; Tuple[T, ...] / Generator are outside the statement's domain.",
        "6 C08",
    ),
    "C09": (
        "fault_enumeration",
        "runtime monitoring: reference store model over recorded histories + offline all-or-none checker over crash/fault points (SQLite progress handler, SIGKILL, strace syscall injection) and concurrent writer/reader processes",
        "Histories (exhaustive add-sequences up to length 3 over colliding names x every query; random and bulk histories) are judged "
        "against a Python-set model; every SQLite VM step of a batch insert is an abort point, sampled/all VM steps are SIGKILL "
        "points, every pwrite64/fdatasync/unlink occurrence is a SIGKILL/EIO/ENOSPC point; after each the file is reopened and read "
        "through an independent connection: every batch all-or-none, acknowledged batches present, integrity_check ok; concurrent "
        "readers must never see a partial batch; commit orders are recorded; writers on fresh connections per batch; 400+-row batches "
        "with sampled interruption points; a write lock held by another connection around the busy timeout; batches handed to the shipped store "
        "logger (log + flush), traces that differ only in the order of a union's members (distinct rows), identifiers beyond Latin-1 after a "
        "prefix, rows back-dated between two additions of one batch.",
        "Crash = process kill / syscall error, not power loss; SQLite itself is trusted to implement rollback-journal recovery.",
        "6 C09",
    ),
    "C02": (
        "exploration",
        "runtime monitoring: sys.monitoring flight recorder as ground truth + offline aligner over the recorded completion and log() sequences; tracer-state invariant at quiescence",
        "Seeded generated programs covering the quantifier's function, parameter and exit kinds, with interleaved live generators and "
        "really-suspending coroutines, run under the real trace_calls; the sequence of logger.log calls is aligned offline, in "
        "completion order, with the interpreter's own event stream (PY_START/RESUME/YIELD/RETURN/THROW/UNWIND): exactly one trace per "
        "resolvable completed call, right function, argument types as bound at call start, return type iff returned, yield type = "
        "union of yields, no residue in CallTracer.traces; a control run without the recorder must log the same sequence; twin modules, "
        "functions sharing a definition site (reload after edit, generated methods), calls around a value whose type cannot be collected.",
        "sys.monitoring (CPython 3.12.1) is trusted as the account of what ran; get_type is judged by C04/C05, not here.",
        "6 C02",
    ),
    "C18": (
        "exploration",
        "runtime monitoring: flight recorder ground truth + offline subsequence/faithfulness checker over sampled runs; binomial bound on the traced fraction",
        "The C02 programs (always with generators that rebind parameters between yields) run at rates {None,1,2,3,10,100} under many "
        "seeds of the global RNG: rates None/1 must equal the C02 expectation; at rates > 1 every logged trace must faithfully match a "
        "real completion in order (argument types at PY_START), nothing may stay in tracer.traces, and the traced fraction of plain "
        "calls must be within 6 sigma of 1/N over >= 20000 calls (globally, and per function in fixed call patterns incl. calls right after "
        "frames no function can be found for); long loops at rates 100, 1000, 3 and 7; series of hundreds of short blocks with fresh "
        "tracers (per-position counts against binomial bounds, number of distinct block outcomes).",
        "As C02.",
        "6 C18",
    ),
    "C17": (
        "exploration",
        "runtime monitoring: independent path oracle against the real default_code_filter over every library/user code location; store rows after real `monkeytype run` sessions",
        "default_code_filter is evaluated on one distinct code object per .py file under the real stdlib and site-packages roots (complete), "
        "on every loaded function, on user files reached through symlinks / relative paths and on synthetic names, without and with "
        "allow-lists of 0..3 names (one interpreter each), and compared with an os.path oracle; generated scripts are run with "
        "`monkeytype run` under default, allow-list and custom-filter configs and the rows in the store compared with the functions "
        "admitted and called (none from __main__, none rejected, every admitted one); sessions of six tracing blocks in one interpreter "
        "sharing a logger / Config object with a different custom filter per block: logged == called & accepted, per block (also over the "
        "source executed as the running script, functions behind closure / class-based / lru_cache decorators, a self-referential nested function, "
        "and with modules only importlib can name).",
        "The filter reads only co_filename; sysconfig roots of this installation.",
        "6 C17",
    ),
    "C03": (
        "exploration",
        "runtime monitoring: differential untraced/traced runs in fresh interpreters + tripwire hook journal attributing user code to monkeytype frames + fault injection into logger, type collection and function lookup; profiler/flush counters",
        "Every tripwire kind (attribute hooks, __class__ overrides, descriptors/lazy properties, container subclasses, hash/eq/bool/repr, "
        "metaclass checks, builtin wrappers forwarding to program containers; raising and state-mutating variants) is placed in every position the tracer reads (arguments, returns, yields, "
        "container elements/keys/values, receivers, module globals, same-named globals, class attributes, callable locals of callers); the "
        "workload runs untraced and traced in fresh interpreters: results, stdout and the program's own hook calls must be equal and no "
        "journal entry may have a monkeytype frame on its stack. Single and double faults (log/flush/get_type/get_func raising, values whose "
        "inspection raises) x block exit x pre-installed profiler: nothing escapes, the block's own exception still propagates, profiler "
        "restored, flush exactly once. Runs with the shipped store logger, and with the shipped default filter under a module allow-list while "
        "sys.modules holds objects whose attribute access is program code.",
        "A hook invoked with a monkeytype frame on the stack is user code run by the tracer; `monkeytype` logger output is not program output.",
        "6 C03",
    ),
    "C11": (
        "exploration",
        "runtime monitoring: stub-text evaluator (names provided by the stub only) + structural-equality oracle over rendered module stubs built from generated CallTraces",
        "CallTraces with grammar types over classes spread across modules whose names are dotted/textual suffixes of one another, nested "
        "classes, a class named like its module, fixture modules that are targets themselves, _io types, TypedDicts at every container position (k>0), generator yields, are rendered "
        "through build_module_stubs_from_traces; every annotation string is evaluated with only the stub's imports, class definitions, "
        "builtins and the target's own classes and must equal the handed-in type structurally (source annotations with spelled-out callable "
        "signatures and None defaults included); every import of the stub must succeed; generated class names may collide only where the "
        "documented naming scheme is itself ambiguous (listed finding).",
        "vf/oracle/stubeval.py is the reference reading of stub text; no-op rewriter and one trace per function fix the handed-in type.",
        "6 C11",
    ),
    "C12": (
        "exploration",
        "runtime monitoring: signature-comparison oracle (ast of the rendered stub vs inspect.signature of the live function) over generated modules traced for real",
        "Generated modules with every function kind and parameter-kind pattern, defaults incl. None, names forcing line wrapping, classes up to three "
        "levels deep (also namespace-only enclosing classes), coroutine functions and generators; random subsets traced through the real trace_calls or constructed CallTraces; the "
        "rendered module stub must parse, contain exactly the traced functions inside their classes, with the right decorator / async, the "
        "same parameter names, kinds, order and default presence as the live function, and an unannotated receiver.",
        "inspect.signature and ast are the reference.",
        "6 C12",
    ),
    "C13": (
        "exploration",
        "runtime monitoring: per-position expectation oracle (inspect.signature + logged traces) against the stubs rendered under each ExistingAnnotationStrategy",
        "Generated signatures with class/generic/Optional/string/NewType annotations on random subsets of positions and None defaults are "
        "traced for real (or through constructed CallTraces with random argument subsets); under REPLICATE, OMIT and IGNORE every parameter and "
        "return position of the rendered stub is compared with the expected annotation (source annotation kept / Optional-wrapped, omitted, "
        "traced type applied, nothing invented, Iterator/Generator construction for generators); for the CLI route the expectation is computed "
        "from the distinct stored rows.",
        "Traced types are shrink_types over the logged traces with rewriting disabled; stub text read by vf/oracle/stubeval.py.",
        "6 C13",
    ),
    "C01": (
        "exploration",
        "runtime monitoring: call-boundary recorder in the driver + stub-text evaluator + conformance oracle over real `monkeytype run` -> SQLite -> `monkeytype stub` sessions",
        "Generated target modules are driven with value-grammar call histories through the real CLI (in-process cli.main): one traced run per "
        "max_typed_dict_size in {0,1,2,3,10}, then a stub for each of 7 rewriter configurations x {default, --ignore-existing-annotations, "
        "--omit-existing-annotations, --disable-type-rewriting}; every value the driver recorded at a parameter, return or yield must be a "
        "member of the annotation the stub text gives that position, evaluated with the stub's own names (a name no import of the stub provides is a "
        "violation wherever it is met); stubs must parse and the commands succeed. Dict keys include non-identifiers and non-NFKC-stable strings.",
        "Driver recording via inspect.signature.bind is independent of the tracer; Iterator/Generator element types of argument values are unverifiable.",
        "6 C01",
    ),
    "C10": (
        "exploration",
        "runtime monitoring: differential observation of the real CLI (stub / stub -v / apply in fresh interpreters) on a store with stale rows versus a copy holding the decodable rows only",
        "Stores mixing valid rows (incl. rows of one function that disagree on parameter names, and classes of live modules whose names extend a "
        "removed module's) with every kind of stale row (17 mutation kinds, local-scope qualnames, subsets up to 3, shuffled orders, duplicates, and stores "
        "where nothing decodes) are given to `stub`, `stub -v` and `apply` against the mutated package: exit status 0, stdout / rewritten "
        "file equal (up to union member order) to the run on the decodable rows alone (also for `<module>:<qualname prefix>` targets), skipped count or one warning per skipped row on "
        "stderr, 'No traces found' when nothing decodes.",
        "Staleness is known by construction; union member order is C14's subject.",
        "6 C10",
    ),
    "C14": (
        "exploration",
        "runtime monitoring: differential observation of `stub` across permuted / duplicated / re-batched / re-dated stores and interpreter processes (PYTHONHASHSEED, memory layout), compared through a parsed normal form",
        "Trace sets from really traced generated modules (wide unions incl. a multiple-inheritance family, TypedDict-worthy dict families) are "
        "stored under permutation, duplication, batch / connection splits and different run dates; `stub` runs in separate interpreters with "
        "PYTHONHASHSEED 0..7 and perturbed memory layout, k in {0,3}, default and no rewriter; imports, classes, definition order and every "
        "per-position type (unions as sets, TypedDict classes inlined) and the shape behind every generated class name must be equal across variants.",
        "Union member order may vary by the statement; trace sets stay below the query limit.",
        "6 C14",
    ),
    "C15": (
        "exploration",
        "runtime monitoring: AST eraser-and-diff oracle, token-level comment check, annotation comparison, idempotence and re-execution of the applied module in a fresh interpreter",
        "Generated importable sources are traced for real; the stub is applied (apply_stub_using_libcst and the `apply` CLI) for overwrite x k "
        "x confinement: the result must parse, equal the original once annotations / new imports / generated TypedDict classes are erased, "
        "keep every comment and existing annotation (unless overwriting), carry every stub annotation for unannotated positions, be unchanged "
        "by a second application and re-run its workload with equal results (library result and the file rewritten by the CLI).",
        "libcst's transformation is judged, not assumed; four libcst-rooted defects are recorded as findings.",
        "6 C15",
    ),
    "C16": (
        "exploration",
        "runtime monitoring: import-placement queries on the AST of the confined result + import/run of the result in a fresh interpreter",
        "The C15 sources with six import styles for modules used at run time; with confinement on, the __future__ import must come first, every "
        "newly introduced non-typing import must sit under `if TYPE_CHECKING:`, every source import must still be at its place, TypedDict must "
        "stay a run-time import, and the module must import and re-run its workload with equal results; the same for the file rewritten by "
        "`apply --pep_563`.",
        "typing names are not judged either way; duplicates of imports the source already has are not annotation-only.",
        "6 C16",
    ),
}

PENDING = {}

ALL = [f"C{n:02d}" for n in range(1, 19)]


def build():
    checks = []
    for pid in ALL:
        if pid not in CHECKS:
            continue
        cat, tech, text, note, ref = CHECKS[pid]
        checks.append(
            {
                "property_id": pid,
                "quick_cmd": f"./check {pid} --tier quick",
                "thorough_cmd": f"./check {pid} --tier thorough",
                "evidence_file": f"evidence/{pid}.json",
                "replay_cmd_template": f"./check {pid} --replay {{path}}",
                "engine": "vf",
                "level_claimed": {"category": cat, "text": text, "design_ref": "DESIGN.md section " + ref},
                "level_note": note,
                "technique": tech,
            }
        )
    na = [
        {"property_id": pid, "reason": PENDING.get(pid, "check not built yet in this round (planned: runtime monitoring per DESIGN.md section 6)")}
        for pid in ALL
        if pid not in CHECKS
    ]
    return {
        "version": 1,
        "setup_cmd": "./setup.sh",
        "hooks": {
            "guard": "MONKEYTYPE_VERIF",
            "enable": "no source hooks are needed: monitors wrap the real functions from outside (DESIGN.md section 8); the guard name is reserved and unused",
            "baseline_off_cmd": BASELINE_OFF,
            "source_commits": [],
            "add_only": True,
        },
        "engines": [
            {
                "name": "vf",
                "path": "vf/",
                "serves_properties": [c["property_id"] for c in checks],
                "kind_free_text": "runtime monitoring harness: workload generators, wrappers/monitors on the real code, reference oracles, offline history checkers, fault injection",
            }
        ],
        "checks": checks,
        "not_applicable": na,
        "notes": "All checks run /repo's working tree (VF_REPO overrides for self-tests). Exit 0 held / 1 violation / 2 inconclusive. "
        "Known findings: KNOWN_FINDINGS.txt. See DESIGN.md.",
    }


if __name__ == "__main__":
    m = build()
    with open(os.path.join(VERIF, "MANIFEST.json"), "w") as f:
        json.dump(m, f, indent=1)
    print("checks:", [c["property_id"] for c in m["checks"]], "not_applicable:", [n["property_id"] for n in m["not_applicable"]])
