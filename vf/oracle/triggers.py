"""Documented triggers of the shipped rewriters as independent predicates over RT terms.  DESIGN 3.10."""
from vf.oracle import rt as RT

_CONT = ("list", "set", "dict", "defaultdict", "tuple", "tuplevar", "iterator", "type", "generator")


def _all_any(t):
    cs = RT.children(t)
    return t[0] in _CONT and bool(cs) and all(c == RT.ANY for c in cs)


def _unions(term):
    return [t for t in RT.walk(term) if t[0] == "union"]


def remove_empty_containers(term):
    for u in _unions(term):
        for e in u[1]:
            if _all_any(e) and any(o is not e and o[0] == e[0] and not _all_any(o) for o in u[1]):
                return True
    return False


def config_dict(term):
    for u in _unions(term):
        if all(m[0] == "dict" for m in u[1]) and len({m[1] for m in u[1]}) == 1:
            return True
    return False


def large_union(term, n):
    return any(len(u[1]) > n for u in _unions(term))


def common_base(term):
    for u in _unions(term):
        if all(m[0] in ("cls", "none") for m in u[1]):
            return True
    return False


def generator(term):
    return any(t[0] == "generator" and t[2] == RT.NONE and t[3] == RT.NONE for t in RT.walk(term))
