"""Conformance oracle: is value v a member of RT term T?   DESIGN 3.2.

Containers are read through the unbound builtin methods so user overrides never run."""
import collections
import types

_CALLABLE_TYPES = (
    types.FunctionType,
    types.LambdaType,
    types.MethodType,
    types.BuiltinMethodType,
    types.BuiltinFunctionType,
)


class Unverifiable(Exception):
    pass


def _issub(a, b):
    try:
        return type.__subclasscheck__(b, a) if type(b) is type else issubclass(a, b)
    except TypeError:
        # classes that refuse issubclass (typing.TypedDict classes): nominal subclassing is what the MRO says
        return b in getattr(a, "__mro__", ())


def member(v, rt, stats=None):
    k = rt[0]
    if k == "any":
        return True
    if k == "none":
        return v is None
    if k == "cls":
        c = rt[1]
        tv = type(v)
        if _issub(tv, c):
            return True
        # PEP 484 numeric tower (lenient only)
        if c is float and tv in (int, bool):
            return True
        if c is complex and tv in (int, bool, float):
            return True
        return False
    if k == "union":
        return any(member(v, a, stats) for a in rt[1])
    if k == "list":
        return isinstance(v, list) and all(member(e, rt[1], stats) for e in list.__iter__(v))
    if k == "set":
        # typing.Set is builtins.set: a frozenset is not one (that would be FrozenSet / AbstractSet)
        return isinstance(v, set) and all(member(e, rt[1], stats) for e in set.__iter__(v))
    if k in ("dict", "defaultdict"):
        if k == "defaultdict" and not isinstance(v, collections.defaultdict):
            return False
        if not isinstance(v, dict):
            return False
        return all(member(a, rt[1], stats) and member(b, rt[2], stats) for a, b in dict.items(v))
    if k == "tuple":
        if not isinstance(v, tuple):
            return False
        elems = list(tuple.__iter__(v))
        return len(elems) == len(rt[1]) and all(member(e, t, stats) for e, t in zip(elems, rt[1]))
    if k == "tuplevar":
        return isinstance(v, tuple) and all(member(e, rt[1], stats) for e in tuple.__iter__(v))
    if k == "type":
        if not isinstance(v, type):
            return False
        return _type_member(v, rt[1])
    if k == "callable":
        return callable(v)
    if k == "iterator":
        if stats is not None:
            stats["unverifiable_elements"] = stats.get("unverifiable_elements", 0) + 1
        return hasattr(type(v), "__next__") and hasattr(type(v), "__iter__")
    if k == "generator":
        if stats is not None:
            stats["unverifiable_elements"] = stats.get("unverifiable_elements", 0) + 1
        return isinstance(v, types.GeneratorType)
    if k == "td":
        if not isinstance(v, dict):
            return False
        req = dict(rt[1])
        opt = dict(rt[2])
        keys = list(dict.keys(v))
        for kk in keys:
            if not isinstance(kk, str):
                return False
        ks = set(keys)
        if not set(req) <= ks or not ks <= set(req) | set(opt):
            return False
        for kk in keys:
            t = req.get(kk, opt.get(kk))
            if not member(dict.__getitem__(v, kk), t, stats):
                return False
        return True
    raise Unverifiable(rt)


def _type_member(cls, t):
    k = t[0]
    if k == "any":
        return True
    if k == "cls":
        return _issub(cls, t[1])
    if k == "none":
        return cls is type(None)
    if k == "union":
        return any(_type_member(cls, a) for a in t[1])
    return False


def is_builtin_callable(v):
    return isinstance(v, _CALLABLE_TYPES)
