"""AST eraser-and-diff for `apply` results (C15, C16).  DESIGN 3.7."""
import ast
import collections
import io
import tokenize


def _block_path(stack):
    return "/".join(stack)


class _Imports(ast.NodeVisitor):
    """All import aliases with the block they live in."""

    def __init__(self):
        self.items = []  # (module, name, asname, level, block path, lineno, statement index in module body or -1)
        self.stack = []

    def generic_visit(self, node):
        label = None
        if isinstance(node, (ast.FunctionDef, ast.AsyncFunctionDef)):
            label = "def " + node.name
        elif isinstance(node, ast.ClassDef):
            label = "class " + node.name
        elif isinstance(node, ast.If):
            label = "if " + ast.unparse(node.test)
        elif isinstance(node, ast.Try):
            label = "try"
        if label:
            self.stack.append(label)
        super().generic_visit(node)
        if label:
            self.stack.pop()

    def visit_Import(self, node):
        for a in node.names:
            self.items.append((None, a.name, a.asname, 0, _block_path(self.stack), node.lineno))

    def visit_ImportFrom(self, node):
        for a in node.names:
            self.items.append((node.module, a.name, a.asname, node.level, _block_path(self.stack), node.lineno))


def imports_of(tree):
    v = _Imports()
    v.visit(tree)
    return v.items


def comments_of(text):
    out = []
    try:
        for tok in tokenize.generate_tokens(io.StringIO(text).readline):
            if tok.type == tokenize.COMMENT:
                out.append(tok.string)
    except (tokenize.TokenError, IndentationError):
        pass
    return out


class _Eraser(ast.NodeTransformer):
    def __init__(self, drop_imports, drop_classes, drop_type_checking, drop_future):
        self.drop_imports = collections.Counter(drop_imports)  # (module, name, asname, level) -> count to drop
        self.drop_classes = set(drop_classes)
        self.drop_type_checking = drop_type_checking
        self.drop_future = drop_future

    def _strip(self, node):
        a = node.args
        for arg in list(a.posonlyargs) + list(a.args) + list(a.kwonlyargs) + [x for x in (a.vararg, a.kwarg) if x]:
            arg.annotation = None
        node.returns = None
        return self.generic_visit(node)

    visit_FunctionDef = _strip
    visit_AsyncFunctionDef = _strip

    def _aliases(self, node, module, level):
        keep = []
        for al in node.names:
            key = (module, al.name, al.asname, level)
            if self.drop_imports.get(key, 0) > 0:
                self.drop_imports[key] -= 1
            else:
                keep.append(al)
        if not keep:
            return None
        node.names = keep
        return node

    def visit_Import(self, node):
        return self._aliases(node, None, 0)

    def visit_ImportFrom(self, node):
        if node.module == "__future__" and self.drop_future:
            node.names = [a for a in node.names if a.name != "annotations"]
            return node if node.names else None
        return self._aliases(node, node.module, node.level)

    def visit_ClassDef(self, node):
        if node.name in self.drop_classes:
            return None
        return self.generic_visit(node)

    def visit_If(self, node):
        node = self.generic_visit(node)
        if node is None:
            return None
        if self.drop_type_checking and ast.unparse(node.test) in ("TYPE_CHECKING", "typing.TYPE_CHECKING") and not node.body and not node.orelse:
            return None
        if not node.body:
            node.body = [ast.Pass()]
        return node


def _fix_empty_bodies(tree):
    for node in ast.walk(tree):
        for field in ("body",):
            b = getattr(node, field, None)
            if isinstance(b, list) and not b and not isinstance(node, ast.Module):
                b.append(ast.Pass())
    return tree


def generated_typeddict_classes(orig_tree, new_tree):
    have = {n.name for n in ast.walk(orig_tree) if isinstance(n, ast.ClassDef)}
    out = set()
    for n in new_tree.body:
        if isinstance(n, ast.ClassDef) and n.name not in have:
            bases = [ast.unparse(b) for b in n.bases]
            if "TypedDict" in bases or any(b in out for b in bases):
                out.add(n.name)
    return out


def erased_diff(orig_text, new_text, allow_future=False):
    """-> (list of differences, info dict).  Empty list = the program is untouched apart from annotations,
    new imports, generated TypedDict classes (and, with confinement, the __future__ import / TYPE_CHECKING block)."""
    info = {}
    try:
        ot = ast.parse(orig_text)
    except SyntaxError as e:
        return [f"original does not parse: {e}"], info
    try:
        nt = ast.parse(new_text)
    except SyntaxError as e:
        return [f"result does not parse: {e.msg} (line {e.lineno})"], info
    oi = collections.Counter((m, n, a, lv) for m, n, a, lv, _b, _l in imports_of(ot))
    ni = collections.Counter((m, n, a, lv) for m, n, a, lv, _b, _l in imports_of(nt))
    new = ni - oi
    lost = oi - ni
    had_future = any(m == "__future__" and n == "annotations" for (m, n, a, lv) in oi)
    info["new_imports"] = sorted(f"{m}.{n}" if m else n for (m, n, a, lv) in new.elements())
    info["lost_imports"] = sorted((f"from {m} import {n}" if m else f"import {n}") + (f" as {a}" if a else "") for (m, n, a, lv) in lost.elements())
    tds = generated_typeddict_classes(ot, nt)
    info["generated_classes"] = sorted(tds)
    drop = list(new.elements())
    er_new = _Eraser(drop, tds, True, allow_future and not had_future)
    nt2 = _fix_empty_bodies(er_new.visit(nt))
    er_old = _Eraser([], [], False, False)
    ot2 = _fix_empty_bodies(er_old.visit(ot))
    diffs = []
    if info["lost_imports"]:
        diffs.append("imports of the original are gone: " + ", ".join(info["lost_imports"]))
    a, b = ast.dump(ot2), ast.dump(nt2)
    if a != b and not info["lost_imports"]:
        # locate the first differing top-level statement
        for i, (x, y) in enumerate(zip(ot2.body, nt2.body)):
            if ast.dump(x) != ast.dump(y):
                diffs.append(f"statement {i} differs: {ast.unparse(x)[:120]!r} vs {ast.unparse(y)[:120]!r}")
                break
        else:
            diffs.append(f"number of top-level statements differs: {len(ot2.body)} vs {len(nt2.body)}")
    oc, nc = collections.Counter(comments_of(orig_text)), collections.Counter(comments_of(new_text))
    gone = oc - nc
    if gone:
        diffs.append("comments lost: " + ", ".join(sorted(gone)[:3]))
    return diffs, info


def annotations_of(text):
    """{(qualpath, param | 'return'): annotation source text} for every function in the text."""
    out = {}
    tree = ast.parse(text)

    def put(key, val):
        # one name defined in several arms: an unannotated occurrence is what gets reported
        if key in out and out[key] is None:
            return
        out[key] = val

    def walk(body, path):
        for n in body:
            if isinstance(n, ast.ClassDef):
                walk(n.body, path + [n.name])
            elif isinstance(n, (ast.FunctionDef, ast.AsyncFunctionDef)):
                q = ".".join(path + [n.name])
                a = n.args
                for arg in list(a.posonlyargs) + list(a.args) + list(a.kwonlyargs) + [x for x in (a.vararg, a.kwarg) if x]:
                    put((q, arg.arg), ast.unparse(arg.annotation) if arg.annotation is not None else None)
                put((q, "return"), ast.unparse(n.returns) if n.returns is not None else None)
                walk(n.body, path + [n.name + ".<locals>"])
            else:
                # definitions inside module-level / class-level compound statements (if / try / with / for / while) keep their path
                for field in ("body", "orelse", "finalbody"):
                    sub = getattr(n, field, None)
                    if isinstance(sub, list) and sub and isinstance(sub[0], ast.stmt):
                        walk(sub, path)
                for h in getattr(n, "handlers", None) or ():
                    walk(h.body, path)
                for c in getattr(n, "cases", None) or ():
                    walk(c.body, path)

    walk(tree.body, [])
    return out
