"""Witness walk for tightness (C05).  DESIGN 3.3.

tight(rt, values, any_ok) -> None when every node of rt is witnessed by the values observed at that
position, else (path, reason)."""
import collections
import types

from vf.oracle.conform import member, is_builtin_callable


def tight(rt, values, any_ok=False, path="$", stats=None):
    if stats is not None:
        stats[rt[0]] = stats.get(rt[0], 0) + 1
    k = rt[0]
    if k == "any":
        if any_ok:
            return None
        return (path, "Any without an empty container at the parent position")
    if not values:
        return (path, f"{k} node with no value at this position")
    if k == "none":
        return None if any(v is None for v in values) else (path, "None not witnessed")
    if k == "cls":
        c = rt[1]
        if any(type(v) is c for v in values):
            return None
        return (path, f"class {getattr(c, '__qualname__', c)} has no exact witness (saw {sorted({type(v).__qualname__ for v in values})})")
    if k == "union":
        for alt in sorted(rt[1], key=repr):
            if alt[0] == "any":
                if not any_ok:
                    return (path + "|", "Any alternative without an empty container at the parent position")
                continue
            sub = [v for v in values if member(v, alt)]
            if not sub:
                return (path + "|", f"alternative {alt[0]} uninhabited")
            r = tight(alt, sub, any_ok, path + "|" + alt[0], stats)
            if r:
                return r
        return None
    if k in ("list", "set"):
        base = list if k == "list" else set
        conts = [v for v in values if type(v) is base]
        if not conts:
            return (path, f"{k} has no exact container witness")
        elems = [e for c in conts for e in base.__iter__(c)]
        empty = any(base.__len__(c) == 0 for c in conts)
        if not elems:
            return None if rt[1][0] == "any" else (path + "[]", "element type without any element")
        return tight(rt[1], elems, empty, path + "[]", stats)
    if k in ("dict", "defaultdict"):
        base = dict if k == "dict" else collections.defaultdict
        conts = [v for v in values if type(v) is base]
        if not conts:
            return (path, f"{k} has no exact container witness")
        empty = any(dict.__len__(c) == 0 for c in conts)
        ks = [a for c in conts for a in dict.keys(c)]
        vs = [b for c in conts for b in dict.values(c)]
        if not ks:
            if rt[1][0] == "any" and rt[2][0] == "any":
                return None
            return (path, "key/value types without any entry")
        r = tight(rt[1], ks, empty, path + ".k", stats)
        if r:
            return r
        return tight(rt[2], vs, empty, path + ".v", stats)
    if k == "tuple":
        n = len(rt[1])
        conts = [v for v in values if type(v) is tuple and tuple.__len__(v) == n]
        if not conts:
            return (path, f"tuple of length {n} has no exact witness")
        for i, t in enumerate(rt[1]):
            r = tight(t, [c[i] for c in conts], False, f"{path}.{i}", stats)
            if r:
                return r
        return None
    if k == "tuplevar":
        return (path, "Tuple[T, ...] is never inferred")
    if k == "type":
        t = rt[1]
        if t[0] == "cls" and any(v is t[1] for v in values):
            return None
        if t[0] == "none" and any(v is type(None) for v in values):
            return None
        return (path, f"Type[{t}] has no class-object witness")
    if k == "callable":
        return None if any(is_builtin_callable(v) for v in values) else (path, "Callable not witnessed")
    if k == "iterator":
        if rt[1][0] == "any" and any(isinstance(v, types.GeneratorType) for v in values):
            return None
        return (path, "Iterator not witnessed by a generator object")
    if k == "td":
        # every dict observed at this position counts (under a union the caller has already kept the values this alternative admits):
        # a key is required only if EVERY observed dict here has it
        conts = [v for v in values if type(v) is dict]
        if not conts or not any(member(v, rt) for v in conts):
            return (path, "TypedDict has no dict witness")
        for name, t in sorted(rt[1]):
            if not all(name in c for c in conts):
                return (path + "." + name, "required key missing from an observed dict")
            r = tight(t, [c[name] for c in conts], False, path + "." + name, stats)
            if r:
                return r
        for name, t in sorted(rt[2]):
            have = [c for c in conts if name in c]
            if not have:
                return (path + "." + name + "?", "optional key never present")
            if len(have) == len(conts):
                return (path + "." + name + "?", "optional key present in every observed dict")
            r = tight(t, [c[name] for c in have], False, path + "." + name + "?", stats)
            if r:
                return r
        return None
    return (path, f"unknown node {rt}")
