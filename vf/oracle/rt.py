"""Reference type terms (RT) and structural equality.  DESIGN 3.1.

Terms are hashable tuples:
  ('any',) ('none',) ('cls', C) ('union', frozenset{t}) ('list', t) ('set', t) ('dict', k, v)
  ('defaultdict', k, v) ('tuple', (t1..tn)) ('tuplevar', t) ('type', t) ('callable',) | ('callable', (p1..pn) | '...', r)
  ('iterator', t) ('generator', y, s, r) ('td', frozenset{(k,t)} required, frozenset{(k,t)} optional)
  ('unknown', repr)
Only typing.get_origin/get_args and attribute reads are used; nothing from monkeytype is called.
"""
import collections
import collections.abc
import typing

ANY = ("any",)
NONE = ("none",)
CALLABLE = ("callable",)
NoneType = type(None)

_DUMMY = "DUMMY_NAME"


def union(terms):
    flat = set()
    for t in terms:
        if t[0] == "union":
            flat |= t[1]
        else:
            flat.add(t)
    if len(flat) == 1:
        return next(iter(flat))
    return ("union", frozenset(flat))


def td(required, optional):
    return ("td", frozenset(required.items()), frozenset(optional.items()))


def _is_typeddict_meta(t):
    # the tracer's own TypedDicts are mypy_extensions classes; a typing.TypedDict class of a user module is a named class to it
    return type(t).__name__ == "_TypedDictMeta" and type(t).__module__ == "mypy_extensions"


def to_rt(t, td_specs=None):
    """td_specs: optional {marker class: rt term} for classes interpreted from stub text."""
    if td_specs and isinstance(t, type) and t in td_specs:
        return td_specs[t]
    if t is typing.Any:
        return ANY
    if t is None or t is NoneType:
        return NONE
    if _is_typeddict_meta(t):
        ann = getattr(t, "__annotations__", {})
        if t.__name__ == _DUMMY and set(ann) == {"required_fields", "optional_fields"}:
            req = {k: to_rt(v, td_specs) for k, v in ann["required_fields"].__annotations__.items()}
            opt = {k: to_rt(v, td_specs) for k, v in ann["optional_fields"].__annotations__.items()}
            return td(req, opt)
        fields = {k: to_rt(v, td_specs) for k, v in ann.items()}
        if getattr(t, "__total__", True):
            return td(fields, {})
        return td({}, fields)
    origin = typing.get_origin(t)
    args = typing.get_args(t)
    if origin is typing.Union:
        return union([to_rt(a, td_specs) for a in args])
    if t is typing.Tuple or t is tuple:
        return ("cls", tuple) if t is tuple else ("tuplevar", ANY)
    if origin is tuple:
        if len(args) == 2 and args[1] is Ellipsis:
            return ("tuplevar", to_rt(args[0], td_specs))
        if args == ((),):
            return ("tuple", ())
        return ("tuple", tuple(to_rt(a, td_specs) for a in args))
    if origin is list:
        return ("list", to_rt(args[0], td_specs) if args else ANY)
    if origin is set:
        return ("set", to_rt(args[0], td_specs) if args else ANY)
    if origin is dict:
        if args:
            return ("dict", to_rt(args[0], td_specs), to_rt(args[1], td_specs))
        return ("dict", ANY, ANY)
    if origin is collections.defaultdict:
        if args:
            return ("defaultdict", to_rt(args[0], td_specs), to_rt(args[1], td_specs))
        return ("defaultdict", ANY, ANY)
    if origin is type:
        return ("type", to_rt(args[0], td_specs) if args else ANY)
    if origin is collections.abc.Callable:
        raw = getattr(t, "__args__", None) or ()  # the flat form: get_args() normalises malformed parameter lists away
        if raw:  # a spelled-out signature (only source annotations have one; inference gives the bare Callable)
            if len(raw) == 2 and raw[0] is Ellipsis:
                return ("callable", "...", to_rt(raw[1], td_specs))
            return ("callable", tuple(to_rt(a, td_specs) for a in raw[:-1]), to_rt(raw[-1], td_specs))
        return CALLABLE
    if origin is collections.abc.Iterator:
        return ("iterator", to_rt(args[0], td_specs) if args else ANY)
    if origin is collections.abc.Generator:
        if len(args) == 3:
            return ("generator",) + tuple(to_rt(a, td_specs) for a in args)
        return ("generator", ANY, ANY, ANY)
    if origin is not None:
        # a generic this reference does not interpret (Deque[...], OrderedDict[...], a user Generic): unknown as a whole, but its
        # arguments are kept as sub-terms so that what sits inside (TypedDicts, classes) is still seen by the walks
        try:
            subs = tuple(to_rt(a, td_specs) for a in args if not isinstance(a, (list, tuple)) and a is not Ellipsis)
        except Exception:
            subs = ()
        return ("unknown", repr(t), subs)
    if isinstance(t, type):
        return ("cls", t)
    return ("unknown", repr(t))


def has_unknown(rt):
    if rt[0] == "unknown":
        return True
    for x in rt[1:]:
        if _walk_has_unknown(x):
            return True
    return False


def _walk_has_unknown(x):
    if isinstance(x, tuple) and x and isinstance(x[0], str) and x[0] in _KINDS:
        return has_unknown(x)
    if isinstance(x, (tuple, frozenset)):
        return any(_walk_has_unknown(y) for y in x)
    return False


_KINDS = {
    "any", "none", "cls", "union", "list", "set", "dict", "defaultdict", "tuple", "tuplevar", "type",
    "callable", "iterator", "generator", "td", "unknown",
}


def is_term(x):
    return isinstance(x, tuple) and bool(x) and isinstance(x[0], str) and x[0] in _KINDS


def children(rt):
    """Direct sub-terms."""
    k = rt[0]
    if k == "union":
        return list(rt[1])
    if k in ("list", "set", "tuplevar", "type", "iterator"):
        return [rt[1]]
    if k in ("dict", "defaultdict"):
        return [rt[1], rt[2]]
    if k == "tuple":
        return list(rt[1])
    if k == "generator":
        return [rt[1], rt[2], rt[3]]
    if k == "callable" and len(rt) == 3:
        return (list(rt[1]) if isinstance(rt[1], tuple) else []) + [rt[2]]
    if k == "td":
        return [t for _, t in rt[1]] + [t for _, t in rt[2]]
    if k == "unknown" and len(rt) > 2:
        return list(rt[2])
    return []


def walk(rt):
    yield rt
    for c in children(rt):
        yield from walk(c)


def show(rt):
    k = rt[0]
    if k == "any":
        return "Any"
    if k == "none":
        return "None"
    if k == "cls":
        return getattr(rt[1], "__qualname__", repr(rt[1]))
    if k == "union":
        return "Union[" + ", ".join(sorted(show(x) for x in rt[1])) + "]"
    if k in ("list", "set", "tuplevar", "type", "iterator"):
        name = {"list": "List", "set": "Set", "tuplevar": "TupleVar", "type": "Type", "iterator": "Iterator"}[k]
        return f"{name}[{show(rt[1])}]"
    if k in ("dict", "defaultdict"):
        return ("Dict" if k == "dict" else "DefaultDict") + f"[{show(rt[1])}, {show(rt[2])}]"
    if k == "tuple":
        return "Tuple[" + (", ".join(show(x) for x in rt[1]) or "()") + "]"
    if k == "generator":
        return f"Generator[{show(rt[1])}, {show(rt[2])}, {show(rt[3])}]"
    if k == "callable":
        if len(rt) == 3:
            return "Callable[" + ("..." if rt[1] == "..." else "[" + ", ".join(show(x) for x in rt[1]) + "]") + ", " + show(rt[2]) + "]"
        return "Callable"
    if k == "td":
        req = ", ".join(f"{n}: {show(t)}" for n, t in sorted(rt[1], key=lambda p: p[0]))
        opt = ", ".join(f"{n}?: {show(t)}" for n, t in sorted(rt[2], key=lambda p: p[0]))
        return "TD{" + ", ".join(x for x in (req, opt) if x) + "}"
    if k == "untypable":
        return "<type cannot be collected>"
    return f"Unknown({rt[1]})"


def shape(rt):
    """Structure with class identities abstracted (for distinct-shape counting)."""
    k = rt[0]
    if k == "cls":
        return "c"
    if k == "union":
        return "U(" + ",".join(sorted(shape(x) for x in rt[1])) + ")"
    if k == "td":
        return "TD(%d,%d;%s)" % (len(rt[1]), len(rt[2]), ",".join(sorted(shape(t) for _, t in list(rt[1]) + list(rt[2]))))
    cs = children(rt)
    return k + ("(" + ",".join(shape(c) for c in cs) + ")" if cs else "")


def td_nodes(rt):
    return [t for t in walk(rt) if t[0] == "td"]
