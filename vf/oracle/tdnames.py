"""The documented naming scheme of generated TypedDict classes, re-stated independently (used only to decide whether a
class-name collision seen in a stub is the *listed* finding - the scheme itself is ambiguous - or something else).

Scheme (monkeytype/stubs.py docstrings): a TypedDict found at a parameter is named after the parameter, at a return after
the function's qualified name (dots -> underscores), at a yield after that + "Yield"; inside a typing generic the hint of
the i-th argument is the container's hint, suffixed with i+1 for every argument but the first; the fields of a TypedDict
use their key as hint; names are PascalCased and suffixed `TypedDict__RENAME_ME__` (`...NonTotal` for the optional part).
"""
import re
import typing

from vf.oracle import rt as RT

_DESCENDS = {"Dict", "DefaultDict", "List", "Set", "Tuple", "Generator", "Iterator", "Union"}


def pascal(s):
    return "".join(a[0].upper() + a[1:] for a in re.split("([^a-zA-Z0-9])", s) if a.isalnum())


def class_name(hint):
    return pascal(hint) + "TypedDict__RENAME_ME__"


def _generic_name(t):
    if typing.get_origin(t) is typing.Union:
        return "Union"
    n = getattr(t, "_name", None)
    return n if getattr(t, "__module__", None) == "typing" else None


def walk(t, hint, out):
    """Appends (class name, RT term of the TypedDict) for every anonymous TypedDict reachable by the documented descent."""
    if RT._is_typeddict_meta(t):
        ann = getattr(t, "__annotations__", {})
        if t.__name__ == "DUMMY_NAME" and set(ann) == {"required_fields", "optional_fields"}:
            out.append((class_name(hint), RT.to_rt(t)))
            for part in ("required_fields", "optional_fields"):
                for k, v in ann[part].__annotations__.items():
                    walk(v, k, out)
        return
    if _generic_name(t) in _DESCENDS:
        args = getattr(t, "__args__", None)
        if not args or args == ((),):
            return
        for i, a in enumerate(args):
            if a is Ellipsis:
                continue
            walk(a, hint + ("" if i == 0 else str(i + 1)), out)


def hints_of_function(qualname, arg_types, return_type=None, yield_type=None):
    items = list((arg_types or {}).items())
    if return_type is not None:
        items.append((qualname.replace(".", "_"), return_type))
    if yield_type is not None:
        items.append((qualname.replace(".", "_") + "Yield", yield_type))
    return items


def ambiguous_names(positions):
    """positions: iterable of (hint, type).  -> set of class names that the documented scheme itself gives to two
    differently shaped TypedDicts of one module (with their `NonTotal` companions)."""
    seen = {}
    for hint, t in positions:
        out = []
        walk(t, hint, out)
        for name, term in out:
            seen.setdefault(name, set()).add(term)
    amb = {n for n, terms in seen.items() if len(terms) > 1}
    return amb | {n + "NonTotal" for n in amb}
