"""Stub evaluator: interprets stub *text* with only the names the stub provides.  DESIGN 3.5.

StubEval(text, target_module) parses the stub, executes its import block statement by statement in
an empty namespace, adds the target module's own classes, interprets TypedDict class definitions from
the AST, and evaluates annotation expressions to RT terms.  Every failure is recorded as an event
(kind, detail, location) - it never raises for stub content."""
import ast
import re
import builtins
import typing

from vf.oracle import rt as RT


class Marker:
    """Stands for a TypedDict class defined in the stub."""


def _markers_in(v, depth=0):
    out = set()
    if depth > 12:
        return out
    if isinstance(v, type) and issubclass(v, Marker):
        out.add(v)
    for a in typing.get_args(v) or ():
        if a is not Ellipsis and not isinstance(a, (list, tuple)):
            out |= _markers_in(a, depth + 1)
        elif isinstance(a, (list, tuple)):
            for x in a:
                out |= _markers_in(x, depth + 1)
    return out


class FuncInfo:
    def __init__(self, qual, node, cls_path):
        self.qual = qual
        self.node = node
        self.cls_path = cls_path
        self.is_async = isinstance(node, ast.AsyncFunctionDef)
        self.decorators = [ast.unparse(d) for d in node.decorator_list]

    def params(self):
        """[(name, kind, annotation node | None, has_default)] in order."""
        a = self.node.args
        out = []
        pos = list(a.posonlyargs) + list(a.args)
        ndef = len(a.defaults)
        for i, arg in enumerate(pos):
            kind = "posonly" if i < len(a.posonlyargs) else "normal"
            out.append((arg.arg, kind, arg.annotation, i >= len(pos) - ndef))
        if a.vararg:
            out.append((a.vararg.arg, "varargs", a.vararg.annotation, False))
        for arg, d in zip(a.kwonlyargs, a.kw_defaults):
            out.append((arg.arg, "kwonly", arg.annotation, d is not None))
        if a.kwarg:
            out.append((a.kwarg.arg, "varkw", a.kwarg.annotation, False))
        return out


class _Splice(ast.NodeTransformer):
    """Replace string constants inside an annotation by the expression they spell (forward references)."""

    def __init__(self):
        self.failed = None

    def visit_Constant(self, node):
        if isinstance(node.value, str):
            try:
                inner = ast.parse(node.value, mode="eval").body
            except SyntaxError as e:
                self.failed = f"forward reference {node.value!r} does not parse: {e.msg}"
                return node
            return self.visit(inner)
        return node

    def visit_Subscript(self, node):
        # Literal[...] does not occur in MonkeyType stubs; every string is a forward reference
        return self.generic_visit(node)


class StubEval:
    def __init__(self, text, target_module=None, type_checking=False):
        self.text = text
        self.type_checking = type_checking  # also execute imports under a top-level `if TYPE_CHECKING:` (names a type checker sees)
        self.events = []
        self.funcs = {}
        self.td_specs = {}
        self.td_nodes = {}
        self.td_def_counts = {}
        self.class_defs = []
        self.syntax_error = None
        self.ns = {"__builtins__": builtins}
        self.provided = set()
        try:
            self.tree = ast.parse(text)
        except SyntaxError as e:
            self.syntax_error = f"{e.msg} (line {e.lineno}: {(e.text or '').strip()[:80]})"
            self.tree = None
            self.events.append(("stub-does-not-parse", self.syntax_error, "module"))
            return
        if target_module is not None and getattr(target_module, "__package__", None):
            # relative imports of the text (`from .shapes import Circle` in an applied source) resolve against the target's package
            self.ns["__package__"] = target_module.__package__
            self.ns["__name__"] = target_module.__name__
        self._imports()
        if target_module is not None:
            modname = target_module.__name__
            for n, v in vars(target_module).items():
                if n in self.ns:
                    continue
                if (isinstance(v, type) and v.__module__ == modname) or (type(v).__name__ == "NewType" and getattr(v, "__module__", None) == modname):
                    self.ns[n] = v
        self._collect(self.tree.body, [])
        for name in list(self.td_nodes):
            self._td_spec(name, ())

    # -- imports
    def _imports(self):
        nodes = list(self.tree.body)
        if self.type_checking:
            for node in self.tree.body:
                if isinstance(node, ast.If) and ast.unparse(node.test) in ("TYPE_CHECKING", "typing.TYPE_CHECKING"):
                    nodes += [st for st in node.body if isinstance(st, (ast.Import, ast.ImportFrom))]
                elif isinstance(node, ast.Try) and all(isinstance(st, (ast.Import, ast.ImportFrom, ast.Assign, ast.Pass))
                                                       for part in [node.body, node.orelse] + [h.body for h in node.handlers] for st in part):
                    # alternative imports (`try: from fast import X / except ImportError: from slow import X`) bind module-level names too
                    try:
                        exec(compile(ast.Module([node], []), "<source-try-import>", "exec"), self.ns)  # noqa: S102
                    except Exception:
                        pass
        for node in nodes:
            if isinstance(node, (ast.Import, ast.ImportFrom)):
                src = ast.unparse(node)
                try:
                    exec(compile(ast.Module([node], []), "<stub-import>", "exec"), self.ns)  # noqa: S102
                except Exception as e:
                    self.events.append(("stub-import-fails", f"{src}: {type(e).__name__}: {e}", "import block"))

    # -- structure
    def _is_typeddict_class(self, node):
        for b in node.bases:
            s = ast.unparse(b)
            if s == "TypedDict" or s in self.td_nodes:
                return True
        return False

    def _collect(self, body, path):
        for node in body:
            if isinstance(node, ast.ClassDef):
                if not path and self._is_typeddict_class(node):
                    self.td_def_counts[node.name] = self.td_def_counts.get(node.name, 0) + 1
                    if node.name in self.td_nodes and ast.dump(node) == ast.dump(self.td_nodes[node.name]):
                        pass  # the same class text again (two parameters of one name and one shape): denotes the same
                    elif node.name in self.td_nodes:
                        self.events.append(("typeddict-class-name-collision", f"two TypedDict classes named {node.name}", "class " + node.name))
                        # keep both for the comparison of what was lost
                        self.td_nodes[node.name + "#dup"] = node
                    else:
                        self.td_nodes[node.name] = node
                        self.ns[node.name] = type(node.name, (Marker,), {})
                    continue
                self.class_defs.append(".".join(path + [node.name]))
                self._collect(node.body, path + [node.name])
            elif isinstance(node, (ast.FunctionDef, ast.AsyncFunctionDef)):
                qual = ".".join(path + [node.name])
                if qual in self.funcs:
                    self.events.append(("function-duplicated", qual, qual))
                self.funcs[qual] = FuncInfo(qual, node, list(path))

    def collided_closure(self):
        """Names of generated TypedDict classes that are defined twice, plus every TypedDict class whose body
        mentions one of them (directly or through other classes): annotations naming any of these are explained
        by the name collision."""
        bad = {loc.split()[-1] for kind, _d, loc in self.events if kind == "typeddict-class-name-collision"}
        if not bad:
            return bad
        mentions = {}
        for name, node in self.td_nodes.items():
            words = set()
            for sub in ast.walk(node):
                if isinstance(sub, ast.Name):
                    words.add(sub.id)
                elif isinstance(sub, ast.Constant) and isinstance(sub.value, str):
                    words.update(re.findall(r"[A-Za-z_][A-Za-z_0-9]*", sub.value))
            mentions[name.split("#")[0]] = mentions.get(name.split("#")[0], set()) | words
        changed = True
        while changed:
            changed = False
            for name, words in mentions.items():
                if name not in bad and words & bad:
                    bad.add(name)
                    changed = True
        return bad

    def _td_spec(self, name, stack):
        if name in self.td_specs:
            return self.td_specs[name]
        if name in stack:
            self.events.append(("typeddict-class-name-collision", f"TypedDict class {name} refers to its own name", "class " + name))
            return ("unknown", "cyclic " + name)
        node = self.td_nodes[name]
        total = True
        req, opt = {}, {}
        for kw in node.keywords:
            if kw.arg == "total":
                total = bool(getattr(kw.value, "value", True))
        for b in node.bases:
            s = ast.unparse(b)
            if s in self.td_nodes:
                base = self._td_spec(s, stack + (name,))
                if base[0] == "td":
                    req.update(dict(base[1]))
                    opt.update(dict(base[2]))
        for st in node.body:
            if isinstance(st, ast.AnnAssign) and isinstance(st.target, ast.Name):
                t = self.ann_rt(st.annotation, f"class {name.split('#')[0]} field {st.target.id}", stack + (name,), in_class_body=True)
                (req if total else opt)[st.target.id] = t if t is not None else ("unknown", "unresolved")
        spec = RT.td(req, opt)
        self.td_specs[name] = spec
        return spec

    # -- annotations
    def ann_value(self, node, loc, in_class_body=False):
        """Evaluate an annotation expression with the stub's names -> typing object, or None (event recorded)."""
        sp = _Splice()
        expr = sp.visit(ast.parse(ast.unparse(node), mode="eval").body)
        if sp.failed:
            self.events.append(("annotation-does-not-parse", sp.failed, loc))
            return None
        ast.fix_missing_locations(expr)
        try:
            return eval(compile(ast.Expression(expr), "<stub-annotation>", "eval"), self.ns)  # noqa: S307
        except (NameError, AttributeError, TypeError, SyntaxError) as e:
            kind = "name-not-provided-in-typeddict-class-body" if in_class_body else "name-not-provided-by-stub"
            self.events.append((kind, f"{ast.unparse(node)}: {type(e).__name__}: {e}", loc))
            return None
        except Exception as e:
            self.events.append(("annotation-evaluation-fails", f"{ast.unparse(node)}: {type(e).__name__}: {e}", loc))
            return None

    def ann_rt(self, node, loc, stack=(), in_class_body=False):
        v = self.ann_value(node, loc, in_class_body)
        if v is None and not (isinstance(node, ast.Constant) and node.value is None):
            return None
        specs = {}
        for cls in _markers_in(v):
            name = cls.__name__
            if name in self.td_nodes:
                specs[cls] = self._td_spec(name, stack)
        try:
            return RT.to_rt(v, specs)
        except Exception as e:
            self.events.append(("annotation-not-a-type", f"{ast.unparse(node)}: {e!r}", loc))
            return None

    def typeddict_classes(self):
        """[(name, number of fields declared in the class body + inherited)] for C06."""
        out = []
        for name in self.td_nodes:
            spec = self._td_spec(name, ())
            if spec[0] == "td":
                out.append((name, len(spec[1]) + len(spec[2])))
        return out
