"""Canonical inhabitants of an RT term: values for which the term is tight.  DESIGN 3.4.
List[Any] stands for the observed empty list (observational reading of C07)."""
import collections
import itertools

from vf.fixtures import hier

_SUB = {hier.A: hier.B, hier.B: hier.C, hier.D: hier.M, hier.R1: hier.X1, hier.R2: hier.X2, int: bool, object: int}
_LIT = {int: 1, str: "s", bool: True, float: 1.5, bytes: b"x", complex: 1j, object: object()}

CAP = 6


def _inst(c):
    if c in _LIT:
        return _LIT[c]
    try:
        return c()
    except Exception:
        return None


def inh(rt):
    k = rt[0]
    if k == "any":
        return []
    if k == "none":
        return [None]
    if k == "cls":
        c = rt[1]
        out = []
        v = _inst(c)
        if v is not None or c is type(None):
            out.append(v)
        if c in _SUB:
            out.append(_inst(_SUB[c]))
        return out
    if k == "union":
        out = []
        for a in sorted(rt[1], key=repr):
            out.extend(inh(a)[:3])
        return out
    if k in ("list", "set"):
        mk = list if k == "list" else set
        elems = inh(rt[1])
        has_any = rt[1][0] == "any" or (rt[1][0] == "union" and ("any",) in rt[1][1])
        out = [mk()] if has_any or not elems else []
        for e in elems[:CAP]:
            try:
                out.append(mk([e]))
            except TypeError:
                pass
        if len(elems) > 1:
            try:
                out.append(mk(elems[:CAP]))
            except TypeError:
                pass
        return out
    if k in ("dict", "defaultdict"):
        ks, vs = inh(rt[1]), inh(rt[2])
        mk = (lambda d: d) if k == "dict" else (lambda d: collections.defaultdict(int, d))
        any_k = rt[1][0] == "any" or (rt[1][0] == "union" and ("any",) in rt[1][1])
        out = [mk({})] if any_k or not ks or not vs else []
        for kk, vv in list(zip(ks, itertools.cycle(vs or [None])))[:CAP] if vs else []:
            try:
                out.append(mk({kk: vv}))
            except TypeError:
                pass
        for vv in vs[:CAP]:
            for kk in ks[:1]:
                try:
                    out.append(mk({kk: vv}))
                except TypeError:
                    pass
        return out
    if k == "tuple":
        parts = [inh(t) for t in rt[1]]
        if any(not p for p in parts):
            return []
        out = [tuple(p[0] for p in parts)]
        for i, p in enumerate(parts):
            for alt in p[1:CAP]:
                out.append(tuple(alt if j == i else q[0] for j, q in enumerate(parts)))
        return out
    if k == "tuplevar":
        es = inh(rt[1])
        return [(), tuple(es[:2])] + [(e,) for e in es[:2]]
    if k == "type":
        t = rt[1]
        if t[0] == "cls":
            return [t[1]] + ([_SUB[t[1]]] if t[1] in _SUB else [])
        if t[0] == "none":
            return [type(None)]
        return []
    if k == "callable":
        return [hier.func, len]
    if k in ("iterator", "generator"):
        return [hier.make_gen()]
    if k == "td":
        req = sorted(rt[1])
        opt = sorted(rt[2])
        rparts = [(n, inh(t)) for n, t in req]
        oparts = [(n, inh(t)) for n, t in opt]
        if any(not p for _, p in rparts):
            return []
        base = {n: p[0] for n, p in rparts}
        out = [dict(base)] if base else []
        for n, p in rparts:
            for alt in p[1:CAP]:
                d = dict(base)
                d[n] = alt
                out.append(d)
        for n, p in oparts:
            for alt in p[:CAP]:
                d = dict(base)
                d[n] = alt
                out.append(d)
        if oparts and all(p for _, p in oparts):
            d = dict(base)
            d.update({n: p[0] for n, p in oparts})
            out.append(d)
        return out
    return []
